"""Core of the runtime-monitoring machinery.

A property module (rtm.props.cNN) exports

    UNITS    list of Unit: a seeded generator of JSON-able case parameters plus a
             ``run(ctx, params)`` function that drives the *real* solver and reports
             what its oracles observed through ``ctx.observe``.
    RULE     text: how cases are generated and what makes one distinct/non-trivial.
    ASSUME   list of text: what the monitors trust.

The worker executes its share of the cases; the runner merges the shards, classifies
violations against known_findings.json, writes evidence and replays and decides the
three-valued verdict.
"""
import contextlib
import hashlib
import io
import json
import math
import os
import time
import zlib
import traceback

import numpy as np

VERIF = os.path.dirname(os.path.dirname(os.path.abspath(__file__)))


def stable_hash(*parts):
    h = hashlib.sha256(repr(parts).encode()).hexdigest()
    return int(h[:12], 16)


def jsonable(x, depth=0):
    """Convert numpy-laden structures into plain JSON types (NaN/inf -> strings)."""
    if depth > 8:
        return repr(x)
    if x is None or isinstance(x, (bool, str)):
        return x
    if isinstance(x, (int, np.integer)):
        return int(x)
    if isinstance(x, (float, np.floating)):
        x = float(x)
        if math.isnan(x):
            return "nan"
        if math.isinf(x):
            return "inf" if x > 0 else "-inf"
        return x
    if isinstance(x, complex):
        return {"re": jsonable(x.real), "im": jsonable(x.imag)}
    if isinstance(x, np.ndarray):
        if x.size > 64:
            return {"shape": list(x.shape), "head": jsonable(x.ravel()[:8].tolist(), depth + 1)}
        return jsonable(x.tolist(), depth + 1)
    if isinstance(x, dict):
        return {str(k): jsonable(v, depth + 1) for k, v in x.items()}
    if isinstance(x, (list, tuple, set)):
        return [jsonable(v, depth + 1) for v in x]
    return repr(x)


def unjson_float(x):
    if isinstance(x, str):
        return {"nan": float("nan"), "inf": float("inf"), "-inf": float("-inf")}[x]
    return x


class SolverRaised(Exception):
    """The real solver raised on a call made through ctx.call/ctx.make."""

    def __init__(self, where, exc):
        super().__init__("%s: %s: %s" % (where, type(exc).__name__, exc))
        self.where = where
        self.exc = exc


class Skip(Exception):
    """The case turned out not to be usable (inadmissible / not resolvable)."""

    def __init__(self, reason):
        super().__init__(reason)
        self.reason = reason


class Unit(object):
    def __init__(self, name, gen, run, quick, thorough, min_nontrivial=1, weight=1.0):
        self.name = name
        self.gen = gen
        self.run = run
        self.quick = quick
        self.thorough = thorough
        self.min_nontrivial = min_nontrivial
        self.weight = weight

    def count(self, tier):
        return self.thorough if tier == "thorough" else self.quick


class Ctx(object):
    """Per-worker accumulator of what the monitors observed."""

    MAX_SAMPLES_PER_KEY = 2

    def __init__(self, prop, tier, seed, shard=0, nshards=1):
        self.prop = prop
        self.tier = tier
        self.seed = seed
        self.shard = shard
        self.nshards = nshards
        self.stats = {}          # "monitor|solver|branch" -> dict
        self.cells = {}          # "monitor|solver|branch" -> set of cell hashes
        self.violations = []
        self.counters = {}
        self.samples = {}
        self.unit_nontrivial = {}
        self.cur_unit = None
        self.cur_index = None
        self.cur_params = None
        self.witness_for = None
        self._bufs = {}
        self._refill = False
        self.harness_errors = []
        self.raised = {}
        self.t0 = time.time()

    # ---- bookkeeping -------------------------------------------------------------
    def count(self, name, n=1):
        self.counters[name] = self.counters.get(name, 0) + n

    def thorough(self):
        return self.tier == "thorough"

    def pick(self, quick, thorough):
        return thorough if self.tier == "thorough" else quick

    def observe(self, monitor, solver, ok, branch="", measure=None, tol=None,
                cell=None, detail=None, nontrivial=True):
        """Record one oracle evaluation.

        ok: True (held), False (violated), None (inconclusive: oracle not decisive).
        measure/tol: the measured quantity and what was allowed (margin telemetry).
        cell: hashable description of the parameter cell; distinctness is counted on
              (monitor, solver, branch, cell).  Default: the case itself.
        """
        if ok is not None:
            ok = bool(ok)
        key = "%s|%s|%s" % (monitor, solver, branch)
        st = self.stats.get(key)
        if st is None:
            st = self.stats[key] = dict(evals=0, held=0, violated=0, inconclusive=0,
                                        trivial=0, worst=0.0, worst_measure=None, tol=None)
            self.cells[key] = set()
        st["evals"] += 1
        if not nontrivial:
            st["trivial"] += 1
        if ok is True:
            st["held"] += 1
        elif ok is False:
            st["violated"] += 1
        else:
            st["inconclusive"] += 1
        if measure is not None and tol:
            try:
                ratio = abs(float(measure)) / float(tol)
                if ok is not False and ratio > st["worst"] and math.isfinite(ratio):
                    st["worst"] = ratio
                    st["worst_measure"] = float(measure)
                    st["tol"] = float(tol)
            except (TypeError, ValueError):
                pass
        if nontrivial and ok is not None:
            c = cell if cell is not None else (self.cur_unit, self.cur_index)
            self.cells[key].add(stable_hash(key, jsonable(c)))
            if self.cur_unit is not None:
                self.unit_nontrivial[self.cur_unit] = self.unit_nontrivial.get(self.cur_unit, 0) + 1
        if ok is not False:
            sk = "%s|%s" % (monitor, solver)
            lst = self.samples.setdefault(sk, [])
            if len(lst) < self.MAX_SAMPLES_PER_KEY and nontrivial and ok is True:
                lst.append(jsonable(dict(monitor=monitor, solver=solver, branch=branch,
                                         measure=measure, tol=tol, unit=self.cur_unit,
                                         params=self.cur_params, detail=detail)))
        else:
            if len(self.violations) < 400:
                self.violations.append(jsonable(dict(
                    monitor=monitor, solver=solver, branch=branch, measure=measure, tol=tol,
                    detail=detail, unit=self.cur_unit, index=self.cur_index,
                    params=self.cur_params, witness_for=self.witness_for)))
            else:
                self.count("violations_dropped_over_cap")
        return ok

    # ---- driving the real code ---------------------------------------------------
    def make(self, cls, *args, **kw):
        """Construct a solver of the real code; exceptions become SolverRaised."""
        # sequence-valued parameters (detonator positions, detonation times ...) are handed over as float64 arrays in half of
        # the constructions (chosen from the values, so that a replay makes the same choice): an array, unlike a list or a
        # tuple, is not copied by numpy.asarray - a solver that works on it in place changes its own parameter
        seq = [k for k, v in kw.items() if isinstance(v, (list, tuple)) and len(v) > 0
               and all(isinstance(x, (int, float)) and not isinstance(x, bool) for x in v)]
        if seq and zlib.crc32(repr(sorted((k, repr(v)) for k, v in kw.items())).encode()) & 1:
            kw = dict(kw)
            for k in seq:
                kw[k] = np.array(kw[k], dtype=float)
            self.count("ctor_sequence_parameters_as_ndarray")
        try:
            with contextlib.redirect_stdout(io.StringIO()):
                return cls(*args, **kw)
        except Exception as e:  # noqa: BLE001 - anything the library raises
            k = "%s.__init__:%s" % (getattr(cls, "__name__", cls), type(e).__name__)
            self.raised[k] = self.raised.get(k, 0) + 1
            raise SolverRaised(k, e)

    def call(self, solver, points, t):
        # in half of the cases the harness behaves like a user who keeps one work array per solver object and refills it in
        # place: when a request has the shape of the previous one for the same object, the library is handed the *same*
        # float64 array with the new contents (a cache that recognises a request by the identity of its array, or that
        # remembers the caller's array instead of a copy, answers with the previous request's values)
        if self._refill and isinstance(points, np.ndarray) and points.dtype == np.float64 and points.flags.c_contiguous and points.ndim <= 2:
            prev = self._bufs.get(id(solver))
            if prev is not None and prev[0] is solver and prev[1].shape == points.shape:
                prev[1][...] = points
                points = prev[1]
                self.count("requests_in_a_refilled_work_array")
            else:
                points = np.array(points, dtype=float)
                self._bufs[id(solver)] = (solver, points)
        try:
            with contextlib.redirect_stdout(io.StringIO()):
                return solver(points, t)
        except Exception as e:  # noqa: BLE001
            k = "%s.__call__:%s" % (type(solver).__name__, type(e).__name__)
            self.raised[k] = self.raised.get(k, 0) + 1
            raise SolverRaised(k, e)

    def quiet(self, fn, *a, **kw):
        try:
            with contextlib.redirect_stdout(io.StringIO()):
                return fn(*a, **kw)
        except Exception as e:  # noqa: BLE001
            k = "%s:%s" % (getattr(fn, "__qualname__", getattr(fn, "__name__", "fn")), type(e).__name__)
            self.raised[k] = self.raised.get(k, 0) + 1
            raise SolverRaised(k, e)

    # ---- running cases -----------------------------------------------------------
    def run_case(self, unit, index, params):
        self.cur_unit, self.cur_index, self.cur_params = unit.name, index, params
        self._bufs = {}
        self._refill = bool(zlib.crc32(json.dumps(jsonable(params), sort_keys=True, default=str).encode()) & 2)
        self.count("cases_run:" + unit.name)
        _t0 = time.time()
        try:
            with np.errstate(all="ignore"):
                unit.run(self, params)
        except SolverRaised as e:
            self.count("solver_raised:" + unit.name)
            self.count("solver_raised_kind:" + e.where)
        except Skip as e:
            self.count("skipped:%s:%s" % (unit.name, e.reason))
        except Exception as e:  # harness bug: must be visible, makes the run inconclusive
            self.harness_errors.append(dict(unit=unit.name, index=index, params=jsonable(params),
                                            error="%s: %s" % (type(e).__name__, e),
                                            tb=traceback.format_exc()[-1500:]))
        finally:
            self.count("wall_ms:" + unit.name, int(1000 * (time.time() - _t0)))
            self.cur_unit = self.cur_index = self.cur_params = None

    def absorb(self, d, unit=None):
        """merge the dump of another accumulator (e.g. a pytest worker that ran under the boundary monitors)"""
        for k, st in d["stats"].items():
            t = self.stats.setdefault(k, dict(evals=0, held=0, violated=0, inconclusive=0, trivial=0, worst=0.0, worst_measure=None, tol=None))
            for f in ("evals", "held", "violated", "inconclusive", "trivial"):
                t[f] += st[f]
            if st["worst"] > t["worst"]:
                t["worst"], t["worst_measure"], t["tol"] = st["worst"], st["worst_measure"], st["tol"]
            self.cells.setdefault(k, set()).update(d["cells"].get(k, []))
            if unit:
                self.unit_nontrivial[unit] = self.unit_nontrivial.get(unit, 0) + st["held"] + st["violated"]
        for v in d["violations"]:
            if unit:
                v = dict(v, unit=unit)
            self.violations.append(v)
        for k, n in d["counters"].items():
            self.count("suite:" + k, n)
        self.harness_errors.extend(d.get("harness_errors", []))

    def dump(self):
        return dict(prop=self.prop, tier=self.tier, seed=self.seed, shard=self.shard,
                    stats=self.stats,
                    cells={k: sorted(v) for k, v in self.cells.items()},
                    violations=self.violations, counters=self.counters,
                    samples=self.samples, unit_nontrivial=self.unit_nontrivial,
                    harness_errors=self.harness_errors, raised=self.raised,
                    wall=time.time() - self.t0)


def case_rng(seed, prop, unit_name, index):
    return np.random.default_rng([int(seed) & 0xFFFFFFFF, stable_hash(prop) & 0xFFFFFFFF,
                                  stable_hash(unit_name) & 0xFFFFFFFF, int(index)])


# ---- small generator helpers ------------------------------------------------------
def logu(rng, lo, hi):
    return float(math.exp(rng.uniform(math.log(lo), math.log(hi))))


def uni(rng, lo, hi):
    return float(rng.uniform(lo, hi))


def choice(rng, seq):
    return seq[int(rng.integers(len(seq)))]


def sgn(rng):
    return 1.0 if rng.random() < 0.5 else -1.0

"""JSON-able solver specifications shared by the C06 history driver and its fresh-interpreter replayer.

A spec describes (class, constructor arguments, per-instance configuration ops); a signature describes one call
(points, t).  ``build(spec)`` constructs the instance from scratch; ``digest(sol)`` is a bit-exact fingerprint of a
result (NaN canonicalised)."""
import contextlib
import hashlib
import importlib
import io
import math
import warnings

import numpy as np


def load(path):
    mod, cls = path.split(":")
    return getattr(importlib.import_module("exactpack.solvers." + mod), cls)


def build(spec):
    with contextlib.redirect_stdout(io.StringIO()), warnings.catch_warnings():
        warnings.simplefilter("ignore")
        if spec["kind"] == "bbnoh":
            from .props.c16 import make_eos
            cls = load(spec["cls"])
            eos = make_eos(spec["eos"], spec["consts"])
            ic = dict(spec["ic"])
            if cls.__name__ == "NohBlackBoxEos":
                s = cls(eos, ic, geometry=ic["symmetry"] + 1)
            else:
                ic.pop("symmetry", None)
                s = cls(eos, ic)
            for op, val in spec.get("tune", []):
                if op == "tol":
                    s.set_new_solver_tolerance(val)
                elif op == "guess":
                    s.set_new_solver_initial_guess(list(val))
                elif op == "maxit":
                    s.set_new_solver_max_iterations(val)
                elif op == "solve":
                    s.solve_jump_conditions()
            return s
        cls = load(spec["cls"])
        kw = {k: (tuple(v) if k in ("x_d",) and isinstance(v, list) else v) for k, v in spec["kwargs"].items()}
        return cls(**kw)


def call(s, sig):
    pts = np.asarray(sig["points"], dtype=float)
    with contextlib.redirect_stdout(io.StringIO()), warnings.catch_warnings(), np.errstate(all="ignore"):
        warnings.simplefilter("ignore")
        return s(pts, sig["t"])


def digest(sol):
    h = hashlib.sha256()
    for n in sol.dtype.names:
        v = sol[n]
        if v.dtype.kind == "f":
            a = np.ascontiguousarray(v, dtype=np.float64).copy()
            a[np.isnan(a)] = np.nan          # one canonical NaN
            a[a == 0.0] = 0.0                # -0.0 and 0.0 are the same value
            h.update(a.tobytes())
        else:
            h.update(repr(v.tolist()).encode())
    return h.hexdigest()


def values(sol):
    return {n: [float(x) if not math.isnan(float(x)) else None for x in np.asarray(sol[n], float)] for n in sol.dtype.names if sol[n].dtype.kind == "f"}

"""Solver catalogue: how to build every public solver class with admissible, non-default
parameters, and where (points, time) its solution exists.

Hand-written from the docstrings / parameter help / error messages of each class.  A
discovery pass (``discover``) walks exactpack.solvers at run time; classes that are not in
this table are reported by the checks as *uncatalogued*.

An entry is a dict:
  path     "module:Class" below exactpack.solvers
  geoms    admissible values of the ``geometry`` parameter (None: class has no such parameter)
  gen      gen(rng, geom) -> kwargs (without geometry): random admissible parameters
  build    optional build(cls, kwargs) -> instance (for non-keyword constructors)
  layout   "1d" | "rows2" | "rows3" | "rowsg" (rows of `geometry` columns) | "comp2" (2 x N)
  domain   domain(rng, solver, kw, geom, n) -> (points, t): in-domain sample
  thermo   True if at least three thermodynamic fields are returned
  cost     rough cost of constructor+call in seconds
"""
import importlib
import inspect
import math
import pkgutil

import numpy as np

from .core import logu, uni, choice, sgn

CAT = {}


def reg(name, path, gen, domain, geoms=None, layout="1d", thermo=False, cost=0.001, build=None,
        minpts=1, grid=False):
    CAT[name] = dict(name=name, path=path, gen=gen, domain=domain, geoms=geoms, layout=layout,
                     thermo=thermo, cost=cost, build=build, minpts=minpts, grid=grid)


def load(path):
    mod, cls = path.split(":")
    return getattr(importlib.import_module("exactpack.solvers." + mod), cls)


def discover():
    """{qualified name: class} of every ExactSolver subclass defined under exactpack.solvers"""
    import exactpack.solvers as S
    from exactpack.base import ExactSolver
    out = {}
    for m in pkgutil.walk_packages(S.__path__, "exactpack.solvers."):
        try:
            mod = importlib.import_module(m.name)
        except Exception:
            continue
        for n, c in inspect.getmembers(mod, inspect.isclass):
            if issubclass(c, ExactSolver) and c is not ExactSolver and c.__module__ == mod.__name__:
                out[m.name.replace("exactpack.solvers.", "") + ":" + n] = c
    return out


# ---- helpers ------------------------------------------------------------------------------------
def r_log(rng, lo, hi, n):
    return np.sort(np.exp(rng.uniform(math.log(lo), math.log(hi), size=n)))


def zero_some(rng, kw, keys, p=0.2):
    """exactly 0.0 is a legitimate value of these parameters (a temperature, a flux, a position, a time): each of them is
    set to it with probability p - `value or default`, `if not value` and divisions by the value live here"""
    for k in keys:
        if k in kw and rng.random() < p:
            kw[k] = 0.0
    return kw


def _g(rng):
    return uni(rng, 1.05, 3.0)


def _pos(rng):
    # scale parameters (densities, speeds, temperatures): one draw in four is a whole number given as a Python int, the
    # way a user types rho0=2 (an array that takes its dtype from the parameter truncates every value)
    v = logu(rng, 0.05, 20)
    if rng.random() < INT_RATE:
        return int(max(1, round(v)))
    return v


# (a check may raise this to 1.0 around a draw to schedule the integer-typed case instead of waiting for it)
INT_RATE = 0.25


def dom_rt(tlo=0.05, thi=5.0, rlo=0.05, rhi=5.0):
    def d(rng, s, kw, geom, n):
        return r_log(rng, rlo, rhi, n), logu(rng, tlo, thi)
    return d


# ---- Noh family ----------------------------------------------------------------------------------
def gen_noh(rng, geom):
    return dict(gamma=_g(rng), u0=-_pos(rng), rho0=_pos(rng))


def dom_noh(rng, s, kw, geom, n):
    t = logu(rng, 0.05, 5)
    rs = abs(kw.get("u0", -1.0)) * t * (kw.get("gamma", 5.0 / 3.0) - 1) / 2
    return r_log(rng, 0.02 * rs, 5 * rs, n), t


reg("Noh", "noh.noh1:Noh", gen_noh, dom_noh, geoms=[1, 2, 3], thermo=True)


def gen_noh2(rng, geom):
    return dict(gamma=_g(rng), rho0=_pos(rng), e0=_pos(rng))


def dom_noh2(rng, s, kw, geom, n):
    return r_log(rng, 0.05, 5, n), choice(rng, [uni(rng, 0.02, 0.95), uni(rng, -2.0, 0.0)])


reg("Noh2", "noh2.noh2:Noh2", gen_noh2, dom_noh2, geoms=[1, 2, 3], thermo=True)
reg("Noh2Cog", "noh2.noh2_cog:Noh2Cog", gen_noh2, dom_noh2, geoms=[1, 2, 3], thermo=True)

# ---- Coggeshall ----------------------------------------------------------------------------------
_G = lambda rng: logu(rng, 1.0, 100.0)          # noqa: E731  Gruneisen constant
def _ab(rng):
    """(alpha, beta): the module docstring documents -1 <= alpha <= 2, the constructors warn outside
    [-2,-1]; both ranges are drawn (admissibility is decided on the returned fields)."""
    # |alpha| >= 0.6: exponents such as (2 beta + k + 7)/alpha stay below ~25 (float overflow / conditioning otherwise)
    a = choice(rng, [uni(rng, -2.0, -1.0), uni(rng, -1.0, -0.6), uni(rng, 0.6, 0.9), uni(rng, 1.1, 2.5)])
    return a, uni(rng, 1.0, 3.0)


def gen_cog1(rng, geom):
    return dict(gamma=_g(rng), rho0=_pos(rng), temp0=_pos(rng), b=uni(rng, -3, 3), Gamma=_G(rng))


def gen_cog2(rng, geom):
    return dict(gamma=_g(rng), rho0=_pos(rng), b=uni(rng, -1.8, 3), Gamma=_G(rng))


def gen_cog3(rng, geom):
    k = geom - 1
    v = choice(rng, [uni(rng, -3, -0.1), uni(rng, 0.1, k - 1.05) if k - 1.05 > 0.1 else uni(rng, -3, -0.1)])
    return dict(rho0=_pos(rng), b=uni(rng, -2, 2) or 0.5, v=v, Gamma=_G(rng))


def gen_cog4(rng, geom):
    return dict(gamma=uni(rng, 0.1, 0.95), rho0=_pos(rng), u0=_pos(rng) * sgn(rng), Gamma=_G(rng))


def gen_cog5(rng, geom):
    return dict(rho0=_pos(rng), u0=_pos(rng), Gamma=_G(rng))


def gen_cog6(rng, geom):
    return dict(rho0=_pos(rng), tau=logu(rng, 0.5, 5), b=uni(rng, -1.8, 4), Gamma=_G(rng))


def dom_tau(rng, s, kw, geom, n):
    tau = kw.get("tau", 1.25)
    return r_log(rng, 0.05, 5, n), tau * choice(rng, [uni(rng, 0.02, 0.95), uni(rng, -0.95, -0.02)])


def gen_cog7(rng, geom):
    k = geom - 1
    g = (k + 3.0) / (k + 1.0)
    Ri = logu(rng, 0.05, 1.0)
    return dict(tau=logu(rng, 0.5, 5), b=uni(rng, -2, 1.9 * g), R0=Ri * uni(rng, 2, 20), Ri=Ri, Gamma=_G(rng))


def dom_cog7(rng, s, kw, geom, n):
    tau = kw["tau"]
    t = tau * uni(rng, 0.02, 0.95)
    f = math.sqrt(1 - (t / tau) ** 2)
    lo, hi = kw["Ri"] * f * 1.02, kw["R0"] * f * 0.98
    return r_log(rng, lo, hi, n), t


def gen_cog8(rng, geom):
    a, b = _ab(rng)
    return dict(gamma=_g(rng), alpha=a, beta=b, rho0=_pos(rng), temp0=_pos(rng), Gamma=_G(rng))


def gen_cog9(rng, geom):
    a, b = _ab(rng)
    return dict(gamma=_g(rng), alpha=a, beta=b, rho0=_pos(rng), Gamma=_G(rng))


def gen_cog10(rng, geom):
    return dict(gamma=_g(rng), beta=uni(rng, 1, 3), lambda0=logu(rng, 1e-14, 1e-10), rho0=_pos(rng),
                temp0=_pos(rng), Gamma=_G(rng))


def gen_cog11(rng, geom):
    k = geom - 1
    g = _g(rng)
    while abs(2 - (g - 1) * (k + 1)) < 0.05:
        g = _g(rng)
    return dict(gamma=g, beta=uni(rng, 1, 3), rho0=_pos(rng), temp0=_pos(rng), Gamma=_G(rng))


def gen_cog12(rng, geom):
    return dict(gamma=uni(rng, 0.1, 0.95), beta=uni(rng, 1, 3), rho0=_pos(rng), u0=_pos(rng) * sgn(rng),
                Gamma=_G(rng))


def gen_cog13(rng, geom):
    a, b = _ab(rng)
    return dict(gamma=_g(rng), rho0=_pos(rng), alpha=a, beta=b, lambda0=logu(rng, 1e-14, 1e-10), Gamma=_G(rng))


def gen_cog14(rng, geom):
    a, b = _ab(rng)
    return dict(gamma=_g(rng), rho0=_pos(rng), alpha=a, beta=b, lambda0=logu(rng, 1e-14, 1e-10), Gamma=_G(rng))


def gen_cog16(rng, geom):
    k = geom - 1
    return dict(gamma=_g(rng), u0=_pos(rng), b=uni(rng, 0.05, 0.95) * k, lambda0=logu(rng, 1e-14, 1e-10),
                Gamma=_G(rng))


def gen_cog17(rng, geom):
    a, b = _ab(rng)
    return dict(gamma=_g(rng), alpha=a, beta=b, lambda0=logu(rng, 1e-14, 1e-10), Gamma=_G(rng))


def gen_cog18(rng, geom):
    a, b = _ab(rng)
    return dict(alpha=a, beta=b, rho0=_pos(rng), tau=logu(rng, 0.5, 5), Gamma=_G(rng))


def gen_cog19(rng, geom):
    return dict(gamma=_g(rng), rho0=_pos(rng), u0=-_pos(rng), Gamma=_G(rng))


def gen_cog20(rng, geom):
    return dict(gamma=_g(rng), rho0=_pos(rng), u0=-_pos(rng), a=logu(rng, 0.05, 2) * sgn(rng), Gamma=_G(rng))


def dom_cog20(rng, s, kw, geom, n):
    a, u0, g = kw["a"], kw["u0"], kw["gamma"]
    tmax = (0.45 / a) if a > 0 else 3.0
    t = uni(rng, 0.05, 0.95) * tmax
    Rs = u0 * (g - 1) / (4 * a) * t * (1 - 2 * a * t) / (1 - a * t)
    Rs = abs(Rs) if Rs != 0 else 1.0
    return r_log(rng, 0.05 * Rs, 5 * Rs, n), t


def gen_cog21(rng, geom):
    return dict(rho0=_pos(rng), temp0=_pos(rng), Gamma=_G(rng))


def dom_cog21(rng, s, kw, geom, n):
    t = logu(rng, 0.1, 3)
    Rs = 2.0 / (kw["Gamma"] * kw["temp0"] * t * t)
    return r_log(rng, 0.05 * Rs, 5 * Rs, n), t


_cogs = [
    ("Cog1", gen_cog1, dom_rt(), [1, 2, 3]), ("Cog2", gen_cog2, dom_rt(), [1, 2, 3]),
    ("Cog3", gen_cog3, dom_rt(tlo=0.05, thi=2.0), [1, 2, 3]), ("Cog4", gen_cog4, dom_rt(), [1, 2, 3]),
    ("Cog5", gen_cog5, dom_rt(), None), ("Cog6", gen_cog6, dom_tau, [1, 2, 3]),
    ("Cog7", gen_cog7, dom_cog7, [1, 2, 3]), ("Cog8", gen_cog8, dom_rt(), [1, 2, 3]),
    ("Cog9", gen_cog9, dom_rt(rlo=0.3, rhi=3, tlo=0.3, thi=3), [1, 2, 3]),
    ("Cog10", gen_cog10, dom_rt(), [2, 3]), ("Cog11", gen_cog11, dom_rt(), [1, 2, 3]),
    ("Cog12", gen_cog12, dom_rt(), [2, 3]), ("Cog13", gen_cog13, dom_rt(), [1, 2, 3]),
    ("Cog14", gen_cog14, dom_rt(), [1, 2, 3]), ("Cog16", gen_cog16, dom_rt(), [2, 3]),
    ("Cog17", gen_cog17, dom_rt(), [1, 2, 3]),
    ("Cog18", gen_cog18, lambda rng, s, kw, geom, n: (r_log(rng, 0.3, 3, n), dom_tau(rng, s, kw, geom, n)[1]), [1, 2, 3]),
    ("Cog19", gen_cog19, dom_noh, [1, 2, 3]), ("Cog20", gen_cog20, dom_cog20, [1, 2, 3]),
    ("Cog21", gen_cog21, dom_cog21, None),
]
for _n, _gen, _dom, _geo in _cogs:
    reg(_n, "cog.%s:%s" % (_n.lower(), _n), _gen, _dom, geoms=_geo, thermo=True)


# ---- Sedov, Guderley -------------------------------------------------------------------------------
def gen_sedov(rng, geom):
    # the three solution types of the solver: standard (omega < omega1), singular (omega = omega1, closed form) and
    # vacuum (omega1 < omega < geometry: a hole opens at the centre); omega1 = (3j - 2 + gamma (2 - j))/(gamma + 1).
    # The singular value is approached to 2e-6 (relative): at the exact floating-point value the constructor divides by
    # zero in a coefficient the singular branch does not use (ZeroDivisionError, counted as a solver exception; the
    # solver treats |v2 - v*| <= 1e-4 as singular).
    gamma = uni(rng, 1.1, 3.0)
    om1 = (3.0 * geom - 2.0 + gamma * (2.0 - geom)) / (gamma + 1.0)
    opts = [0.0, 0.0, uni(rng, 0.0, 0.9 * geom), uni(rng, 0.0, 0.9 * geom), om1 * (1.0 + 2e-6 * sgn(rng)), uni(rng, om1 + 0.02 * (geom - om1), om1 + 0.9 * (geom - om1))]
    opts = opts[:4] if om1 >= geom - 1e-9 else opts                    # planar: omega1 = 1 = geometry, standard type only
    # the two "special singularities" of the closed form (denominators of its exponents vanish; the solver switches to
    # limiting expressions within 1e-4 of them): omega2 = (2 (gamma-1) + j)/gamma, omega3 = j (2 - gamma)
    for sp in ((2.0 * (gamma - 1.0) + geom) / gamma, geom * (2.0 - gamma)):
        if 0.0 <= sp < geom - 1e-9:
            opts = opts + [sp]
    om = choice(rng, opts)
    return dict(gamma=gamma, rho0=_pos(rng), omega=om, eblast=logu(rng, 0.05, 20))


def dom_sedov(rng, s, kw, geom, n):
    t = logu(rng, 0.1, 3)
    # shock radius from dimensional analysis (order of magnitude only; refined by callers via s.r2)
    xg2 = geom + 2 - kw.get("omega", 0.0)
    r2 = (kw.get("eblast", 1.0) / kw.get("rho0", 1.0)) ** (1 / xg2) * t ** (2 / xg2)
    return np.sort(rng.uniform(0.02 * r2, 1.6 * r2, size=n)), t


reg("Sedov", "sedov.sedov:Sedov", gen_sedov, dom_sedov, geoms=[1, 2, 3], thermo=True, cost=1.0)


def gen_gud(rng, geom):
    return dict(gamma=choice(rng, [2.0, 2.5, 3.0, 6.0]), rho0=_pos(rng))


def dom_gud(rng, s, kw, geom, n):
    # Caramana-Whalen time; collapse at t = 0.750024322
    t = choice(rng, [uni(rng, 0.05, 0.7), uni(rng, 0.8, 1.4)])
    return r_log(rng, 0.05, 3, n), t


reg("Guderley", "guderley.guderley:Guderley", gen_gud, dom_gud, geoms=[2, 3], thermo=True, cost=1.0)


# ---- Riemann ---------------------------------------------------------------------------------------
def gen_riemann(rng, geom):
    from . import riemann_common as RC
    st = RC.gen_state(rng)
    xd0 = uni(rng, -1, 1)
    return RC.solver_kwargs(st, xd0, xd0 - 3.0, xd0 + 3.0)


def dom_riemann(rng, s, kw, geom, n):
    cs = math.sqrt(kw["gl"] * kw["pl"] / kw["rl"]) + math.sqrt(kw["gr"] * kw["pr"] / kw["rr"])
    um = max(abs(kw["ul"]), abs(kw["ur"]))
    t = uni(rng, 0.2, 0.9) * 1.0 / (cs + um)
    return np.sort(rng.uniform(kw["xd0"] - 2.9, kw["xd0"] + 2.9, size=n)), t


reg("IGEOS_Solver", "riemann.ep_riemann:IGEOS_Solver", gen_riemann, dom_riemann, thermo=True, cost=0.02)
reg("GenEOS_Solver", "riemann.ep_riemann:GenEOS_Solver", gen_riemann, dom_riemann, thermo=True, cost=3.0)


# ---- EHEP, piston, Mader, SDRZ -------------------------------------------------------------------
def gen_ehep(rng, geom):
    D = logu(rng, 0.3, 3)
    return dict(D=D, rho_0=logu(rng, 0.5, 5), up=D * uni(rng, 0.01, 0.2), xtilde=logu(rng, 0.3, 3),
                xmax=10.0, tmax=10.0)


def dom_ehep(rng, s, kw, geom, n):
    t = uni(rng, 0.2, 0.9) * min(kw["tmax"], kw["xmax"] / kw["D"])
    return np.sort(rng.uniform(-0.4 * kw["D"] * t, min(kw["xmax"], 1.2 * kw["D"] * t), size=n)), t


reg("EscapeOfHEProducts", "ehep.ehep:EscapeOfHEProducts", gen_ehep, dom_ehep, geoms=[1], thermo=True, cost=0.01)


def gen_piston(rng, geom):
    G = logu(rng, 0.05, 2)
    Y = G * logu(rng, 1e-3, 3e-2)
    rho0 = logu(rng, 1, 20)
    c0 = logu(rng, 0.2, 1.0)
    return dict(gamma=uni(rng, 1.0, 2.5), c0=c0, s0=uni(rng, 1.0, 1.8), model=choice(rng, ["hypo", "hyperIfin", "hyperFin"]),
                G=G, Y=Y, rho0=rho0, up=c0 * logu(rng, 0.01, 0.15))


def dom_piston(rng, s, kw, geom, n):
    xmax = logu(rng, 0.5, 5)
    t = uni(rng, 0.2, 0.95) * xmax / s.wv_el
    x = np.sort(rng.uniform(0, xmax, size=n))
    x[-1] = xmax
    return x, t


reg("EPpiston", "ep_piston.ep_piston:EPpiston", gen_piston, dom_piston, thermo=True, cost=0.01, minpts=1)
# the documented two-wave structure needs a piston faster than the precursor's particle velocity and a plastic
# wave slower than the elastic one (sub-yield and overdriven pistons are C20's subject)
CAT["EPpiston"]["admit"] = lambda s: (s.up > s.vel_y) and (s.wv_pl < s.wv_el)


def gen_mader(rng, geom):
    # two unit systems: CGS (the class defaults: dyn/cm^2, cm/s, times of microseconds = 1e-6) and the cm / microsecond /
    # Mbar system of the module's documentation (0.3 Mbar, 0.8 cm/us, times of order 1-10)
    u = 1.0 if rng.random() < 0.5 else 1e-6
    d = logu(rng, 3e5, 1.2e6) * u
    return dict(p_cj=logu(rng, 1e11, 5e11) * u * u, d_cj=d, gamma=uni(rng, 2.0, 3.5), u_piston=choice(rng, [0.0, d * uni(rng, 0.0, 0.1)]))


def dom_mader(rng, s, kw, geom, n):
    t = logu(rng, 1e-6, 1e-5) * (1.0 if kw["d_cj"] > 100.0 else 1e6)
    n = max(n, 8)
    L = kw["d_cj"] * t
    dx = L / n
    return dx * (np.arange(n) + 0.5), t


reg("Mader", "mader.timmes:Mader", gen_mader, dom_mader, thermo=True, cost=0.01, minpts=2, grid=True)


def gen_sdrz(rng, geom):
    return dict(D=logu(rng, 0.3, 3), rho_0=logu(rng, 0.5, 5), gamma=uni(rng, 1.5, 4.0))


def dom_sdrz(rng, s, kw, geom, n):
    t = logu(rng, 0.2, 4)
    return np.sort(rng.uniform(-0.1 * kw["D"] * t, 1.2 * kw["D"] * t, size=n)), t


reg("SteadyDetonationReactionZone", "sdrz.sdrz:SteadyDetonationReactionZone", gen_sdrz, dom_sdrz, geoms=[1],
    thermo=True, cost=0.01)


# ---- black-box Noh ---------------------------------------------------------------------------------
def gen_bbnoh(rng, geom):
    from .props.c16 import gen_consts
    name = choice(rng, ["ideal", "stiffened", "noble_abel", "carnahan_starling"])
    c = gen_consts(rng, name)
    if name == "stiffened" and geom != 1:
        name = "ideal"        # stiffened gas is not admissible for curvilinear Noh ([Ramsey17])
        c = gen_consts(rng, name)
    if name == "stiffened":
        r0 = c["rho_inf"] * uni(rng, 1.0, 1.5)
    elif name in ("noble_abel", "carnahan_starling"):
        r0 = logu(rng, 0.005, 0.02) / c["b"]
    else:
        r0 = _pos(rng)
    u0 = -logu(rng, 0.3, 3)
    # planar problems may start from a pressurised state (the only geometry for which the solver admits P0 > 0)
    p0 = r0 * u0 * u0 * logu(rng, 0.01, 0.5) if (geom == 1 and rng.random() < 0.5) else 0.0
    return dict(eos=name, consts=c, ic=dict(density=r0, velocity=u0, pressure=p0, symmetry=geom - 1))


def build_bbnoh(cls, kw):
    from .props.c16 import make_eos
    eos = make_eos(kw["eos"], kw["consts"])
    ic = dict(kw["ic"])
    if cls.__name__ == "NohBlackBoxEos":
        s = cls(eos, ic, geometry=ic["symmetry"] + 1)
    else:
        ic.pop("symmetry", None)
        s = cls(eos, ic)
    # (the state ahead of the shock is NOT set by hand here: the solver must return the initial conditions it was given)
    # physically reasonable starting guess (C16's scalar reference model), 5 % off
    from .props.c16 import ref_root
    root = ref_root(eos, dict(kw["ic"]))
    if root is not None:
        rl, pl, el, D = root
        s.set_new_solver_initial_guess([1.05 * rl, 0.95 * el, 1.05 * D])
    return s


def dom_bbnoh(rng, s, kw, geom, n):
    t = logu(rng, 0.1, 3)
    rs = abs(kw["ic"]["velocity"]) * t
    return r_log(rng, 0.02 * rs, 3 * rs, n), t


reg("NohBlackBoxEos", "nohblackboxeos.blackboxnoh:NohBlackBoxEos", gen_bbnoh, dom_bbnoh, geoms=[1, 2, 3], thermo=True,
    build=build_bbnoh, cost=0.01)


# ---- RMTV, Su-Olson, radiative shocks ---------------------------------------------------------------
def gen_rmtv(rng, geom):
    # beta0 is the eigenvalue that belongs to the default (a, b, gamma, xi_f, xi_s); only the scale
    # parameters can be varied consistently
    return dict(rf=logu(rng, 0.3, 3))


def dom_rmtv(rng, s, kw, geom, n):
    rf = kw.get("rf", 0.9)
    return np.sort(rng.uniform(0.02 * rf, 1.1 * rf, size=n)), 1.0


reg("Rmtv", "rmtv.rmtv:Rmtv", gen_rmtv, dom_rmtv, thermo=True, cost=0.5)


def gen_so(rng, geom):
    return dict(trad_bc_ev=logu(rng, 10, 1e4), opac=logu(rng, 0.1, 10), alpha=3.02636565993931701e-14 * logu(rng, 0.5, 10))


def dom_so(rng, s, kw, geom, n):
    # constants of so_wave: tau = 4 a c opac t / alpha, x = sqrt(3) opac z
    clight, ssol = 2.99792458e10, 5.67051e-5
    asol = 4.0 * ssol / clight
    tau = logu(rng, 0.1, 10)
    t = tau * kw.get("alpha", 4 * asol) / (4 * asol * clight * kw.get("opac", 1.0))
    xs = np.sort(rng.uniform(0.01, 3.0, size=min(n, 6))) / (math.sqrt(3.0) * kw.get("opac", 1.0))
    return xs, t


reg("SuOlson", "suolson.suolson:SuOlson", gen_so, dom_so, cost=0.2)


def gen_rad_default(rng, geom):
    # the defaults, or another material and upstream state (the class keeps default-material numbers - sound speed, P0 -
    # as class attributes: a solver must use the user's)
    if rng.random() < 0.2:
        return dict()
    return dict(M0=float(choice(rng, [1.05, 1.2, 1.4])), gamma=float(choice(rng, [5.0 / 3.0, 1.4, 1.5])), Tref=logu(rng, 50, 300),
                Cv=1.4472799784454e12 * logu(rng, 0.5, 2.0), rho0=logu(rng, 0.5, 2.0))


def dom_rad(rng, s, kw, geom, n):
    x = np.array(s.x, dtype=float)
    if not np.all(np.isfinite(x)):
        # the solver's own profile has no finite positions (seen for ED_Solver(M0=1.2, gamma=1.4, Tref=56.4, Cv=1.6e12,
        # rho0=0.75): P0 = 3.6e-5, the quadratic for rho in fnctn_ED has a negative discriminant and every profile array is
        # NaN, with RuntimeWarnings only): there is no domain to draw points from - counted, treated as a construction
        # that failed
        from .core import SolverRaised
        raise SolverRaised("%s.profile:not-finite" % type(s).__name__, ValueError("profile positions are not finite"))
    lo, hi = -x.max(), -x.min()
    t = 0.0 if rng.random() < 0.3 else logu(rng, 1e-12, 1e-9)
    sh = t * getattr(s, "sound", 0.0) * getattr(s, "M0", 0.0)
    w = hi - lo
    return np.sort(rng.uniform(lo + 0.02 * w, hi - 0.02 * w, size=n)) + sh, t


for _n, _c in (("ED_Solver", 1.0), ("nED_Solver", 3.0), ("Sn_Solver", 25.0), ("ie_Solver", 5.0)):
    # the Sn and ion-electron solvers stay on their defaults: with another material one construction can take tens of
    # minutes (seen: > 13 min in a quick run) - C12 drives Sn with the two parameter sets it can afford
    reg(_n, "radshocks.nED_radshocks:" + _n, gen_rad_default if _n in ("ED_Solver", "nED_Solver") else (lambda rng, geom: dict()), dom_rad, thermo=True, cost=_c)


# ---- heat ---------------------------------------------------------------------------------------
def gen_rod(rng, geom):
    bc = int(rng.integers(1, 5))
    L = logu(rng, 0.5, 5)
    kw = dict(Nsum=int(choice(rng, [50, 100, 400])), kappa=logu(rng, 0.1, 10), TL=uni(rng, 0, 5), TR=uni(rng, 0, 5), L=L)
    g1, g2 = uni(rng, -2, 2), uni(rng, -2, 2)
    if bc == 1:
        kw.update(alpha1=1.0, beta1=0.0, gamma1=g1, alpha2=1.0, beta2=0.0, gamma2=g2)
    elif bc == 2:
        kw.update(alpha1=0.0, beta1=1.0, gamma1=g1, alpha2=0.0, beta2=1.0, gamma2=g1)   # equal fluxes required
    elif bc == 3:
        kw.update(alpha1=1.0, beta1=0.0, gamma1=g1, alpha2=0.0, beta2=1.0, gamma2=g2)
    else:
        kw.update(alpha1=0.0, beta1=1.0, gamma1=g1, alpha2=1.0, beta2=0.0, gamma2=g2)
    # alpha T + beta T' = gamma and k (alpha T + beta T') = k gamma are the same condition: half of the draws carry a
    # non-unit (possibly negative) factor on each boundary, e.g. k dT/dx = q or an outward normal
    if rng.random() < 0.5:
        k1, k2 = sgn(rng) * logu(rng, 0.3, 3), sgn(rng) * logu(rng, 0.3, 3)
        if bc == 2:
            k2 = k1                                     # the solver compares gamma1 with gamma2 for this case
        for k, a in (("alpha1", k1), ("beta1", k1), ("gamma1", k1), ("alpha2", k2), ("beta2", k2), ("gamma2", k2)):
            kw[k] = kw[k] * a
    return kw


def dom_rod(rng, s, kw, geom, n):
    L = kw.get("L", 2.0)
    return np.sort(rng.uniform(0, L, size=n)), logu(rng, 0.01, 2.0) * L * L / kw.get("kappa", 1.0) * 0.2


reg("Rod1D", "heat.rod1d:Rod1D", gen_rod, dom_rod, cost=0.01)
reg("PlanarSandwich", "heat.planar_sandwich:PlanarSandwich",
    lambda rng, geom: zero_some(rng, dict(kappa=logu(rng, 0.1, 10), Nsum=int(choice(rng, [100, 1000])), L=logu(rng, 0.5, 5),
                                          TT=uni(rng, 0, 3), TB=uni(rng, 0, 3), TL=uni(rng, 0, 3), TR=uni(rng, 0, 3)), ("TT", "TB", "TL", "TR")),
    dom_rod, cost=0.01)
reg("PlanarSandwichHot", "heat.planar_sandwich_hot:PlanarSandwichHot",
    lambda rng, geom: zero_some(rng, dict(kappa=logu(rng, 0.1, 10), Nsum=int(choice(rng, [100, 1000])), L=logu(rng, 0.5, 5),
                                          F=uni(rng, -2, 2), TL=uni(rng, 0, 3), TR=uni(rng, 0, 3)), ("F", "TL", "TR")),
    dom_rod, cost=0.01)
reg("PlanarSandwichHalf", "heat.planar_sandwich_half:PlanarSandwichHalf",
    lambda rng, geom: zero_some(rng, dict(kappa=logu(rng, 0.1, 10), Nsum=int(choice(rng, [100, 1000])), L=logu(rng, 0.5, 5),
                                          TB=uni(rng, 0, 3), FT=uni(rng, -2, 2), TL=uni(rng, 0, 3), TR=uni(rng, 0, 3)), ("TB", "FT", "TL", "TR")),
    dom_rod, cost=0.01)


def dom_rect(rng, s, kw, geom, n):
    a, b = kw.get("a", 2.0), kw.get("b", 2.0)
    return np.array([rng.uniform(0, a, size=n), rng.uniform(0, b, size=n)]), logu(rng, 0.01, 1.0)


reg("Rectangle", "heat.rectangle:Rectangle",
    lambda rng, geom: dict(kappa=logu(rng, 0.1, 10), Nsum=int(choice(rng, [50, 100])), a=logu(rng, 0.5, 5),
                           b=logu(rng, 0.5, 5), Ttop=uni(rng, 0.2, 3)),
    dom_rect, layout="comp2", cost=0.05)


def dom_h1(rng, s, kw, geom, n):
    b = kw.get("b", 1.0)
    return np.sort(rng.uniform(0.02 * b, b, size=n)), logu(rng, 0.01, 1.0)


reg("Hutchens1", "heat.hutchens1:Hutchens1",
    lambda rng, geom: dict(k=logu(rng, 1e10, 1e12), cp=logu(rng, 1e10, 1e12), rho=logu(rng, 1, 20), Tb=uni(rng, 1, 10),
                           T0=uni(rng, 0, 5), Nsum=int(choice(rng, [100, 400])), b=logu(rng, 0.3, 3)),
    dom_h1, cost=0.01)


def dom_h2(rng, s, kw, geom, n):
    b, L = kw.get("b", 1.0), kw.get("L", 2.0)
    return np.array([rng.uniform(0.02 * b, b, size=n), rng.uniform(0, L, size=n)]), logu(rng, 0.01, 1.0)


reg("Hutchens2", "heat.hutchens2:Hutchens2",
    lambda rng, geom: dict(k=logu(rng, 1e10, 1e12), g0=logu(rng, 1e12, 1e14), Tb=uni(rng, 1, 10), T0=uni(rng, 0, 5),
                           TL=uni(rng, 0, 5), Nsum=int(choice(rng, [50, 100])), b=logu(rng, 0.3, 3), L=logu(rng, 0.5, 4)),
    dom_h2, layout="comp2", cost=0.05)


def dom_cs(rng, s, kw, geom, n):
    a, b = kw.get("a", 0.25), kw.get("b", 0.85)
    n = min(n, 4)
    return np.array([rng.uniform(a, b, size=n), rng.uniform(0, math.pi / 2, size=n)]), logu(rng, 0.01, 0.5)


reg("CylindricalSandwich", "heat.cylindrical_sandwich:CylindricalSandwich",
    lambda rng, geom: dict(kappa=logu(rng, 0.3, 3), a=uni(rng, 0.1, 0.4), b=uni(rng, 0.6, 1.2), T1=uni(rng, 0.5, 3),
                           Nsum=6, Msum=12),
    dom_cs, layout="comp2", cost=3.0)


# ---- burn time ---------------------------------------------------------------------------------
def _k_pts(rng, g, L, n):
    return rng.uniform(-L, L, size=(n, g))


def gen_k1(rng, geom):
    L = logu(rng, 0.1, 100)
    return dict(D=logu(rng, 0.1, 10), x_d=tuple(float(v) for v in rng.normal(size=geom) * L), t_d=uni(rng, -2, 2))


reg("Kenamond1", "kenamond.kenamond1:Kenamond1", gen_k1,
    lambda rng, s, kw, geom, n: (_k_pts(rng, geom, 3 * max(1.0, np.abs(kw["x_d"]).max()), n), 0.0),
    geoms=[2, 3], layout="rowsg")


def gen_k2(rng, geom):
    from .props.c13 import gen_k2 as g
    p = g(rng, geom - 2, "quick")
    R, D2 = p["R"], p["D2"]
    t_d = [t + (4e-16 * (abs(t) + R / D2) if k != 2 else 0.0) for k, t in enumerate(p["t_d"])]
    return dict(R=R, D1=p["D1"], D2=D2, dets=p["dets"], t_d=t_d)


reg("Kenamond2", "kenamond.kenamond2:Kenamond2", gen_k2,
    lambda rng, s, kw, geom, n: (_k_pts(rng, geom, 1.3 * max(abs(a) for a in kw["dets"]), n), 0.0),
    geoms=[2, 3], layout="rowsg")


def gen_k3(rng, geom):
    R = logu(rng, 0.1, 10)
    v = rng.normal(size=geom)
    v = v / np.linalg.norm(v) * R * uni(rng, 1.05, 10)
    return dict(R=R, D=logu(rng, 0.1, 10), x_d=tuple(float(x) for x in v), t_d=uni(rng, -2, 2))


def dom_k3(rng, s, kw, geom, n):
    R = kw["R"]
    L = 2.5 * float(np.linalg.norm(kw["x_d"]))
    pts = []
    while len(pts) < n:
        q = rng.uniform(-L, L, size=geom)
        if np.linalg.norm(q) > 1.001 * R:
            pts.append(q)
    return np.array(pts), 0.0


reg("Kenamond3", "kenamond.kenamond3:Kenamond3", gen_k3, dom_k3, geoms=[2, 3], layout="rowsg")


def gen_dsdc(rng, geom):
    from .props.c13 import gen_dsd as g
    p = g(rng, 0, "quick")
    p.pop("pseed")
    return p


def dom_dsdc(rng, s, kw, geom, n):
    ang = rng.uniform(0, 2 * math.pi, size=n)
    r = rng.uniform(kw["r_1"], 4 * kw["r_2"], size=n)
    return np.stack([r * np.cos(ang), r * np.sin(ang)], axis=1), 0.0


reg("CylindricalExpansion", "dsd.cylexpansion:CylindricalExpansion", gen_dsdc, dom_dsdc, geoms=[2], layout="rows2")


def dom_ratestick(rng, s, kw, geom, n):
    x = np.linspace(0.0, kw.get("R", 1.0), kw["xnodes"])
    y = np.linspace(0.0, 1.0, kw["ynodes"])
    x2, y2 = np.meshgrid(x, y)
    return np.vstack((x2.flatten(), y2.flatten())).T, 0.6


reg("RateStick", "dsd.ratestick:RateStick",
    lambda rng, geom: dict(xnodes=6, ynodes=5, t_f=float(uni(rng, 1.0, 1.5)), IC=1),
    dom_ratestick, geoms=[1, 2], layout="rows2", cost=8.0, grid=True, minpts=30)


def dom_arc(rng, s, kw, geom, n):
    r = np.linspace(kw.get("r_1", 2.0), kw.get("r_2", 4.0), kw["xnodes"])
    th = np.linspace(-math.pi / 2, math.pi / 2, kw["ynodes"])
    r2, t2 = np.meshgrid(r, th)
    return np.vstack(((r2 * np.cos(t2)).flatten(), (r2 * np.sin(t2)).flatten())).T.clip(min=[0.0, -1e300]), 0.5


reg("ExplosiveArc", "dsd.explosivearc:ExplosiveArc",
    lambda rng, geom: dict(xnodes=5, ynodes=7, t_f=float(uni(rng, 2.0, 2.5))),
    dom_arc, geoms=[1], layout="rows2", cost=15.0, grid=True, minpts=35)


# ---- Blake ------------------------------------------------------------------------------------------
def gen_blake(rng, geom):
    G = logu(rng, 1e9, 1e11)
    nu = uni(rng, 0.05, 0.45)
    K = 2 * G * nu / (1 - 2 * nu) + 2 * G / 3
    return dict(shear_mod=G, poisson_ratio=nu, ref_density=logu(rng, 1000, 10000), cavity_radius=logu(rng, 0.03, 3),
                pressure_scale=K * logu(rng, 1e-5, 1e-2))


def dom_blake(rng, s, kw, geom, n):
    a = kw["cavity_radius"]
    cl = math.sqrt(float(s.long_mod) / kw["ref_density"])
    t = logu(rng, 0.3, 5) * a / cl
    return np.sort(rng.uniform(a, a + 1.4 * cl * t, size=n)), t


reg("Blake", "blake.blake:Blake", gen_blake, dom_blake, geoms=[3], cost=0.001)


# ---- 2-D steady Riemann ----------------------------------------------------------------------------
def gen_r2d(rng, geom):
    def st():
        return [logu(rng, 0.3, 3), logu(rng, 0.3, 3), uni(rng, 1.8, 6.0), 0.0, uni(rng, 1.2, 1.67)]
    return dict(bottom_state=st(), top_state=st())


def dom_r2d(rng, s, kw, geom, n):
    ang = rng.uniform(-1.2, 1.2, size=n)
    r = rng.uniform(0.2, 2.0, size=n)
    return np.stack([r * np.cos(ang), r * np.sin(ang)], axis=1), 0.25


reg("IGEOS_Solver2D", "riemann2D_2section_steadystate.ep_riemann2D_2section_steadystate:IGEOS_Solver", gen_r2d, dom_r2d,
    layout="rows2", cost=0.05)


# ---- wrappers and instantiation -----------------------------------------------------------------
WRAPPER_BASE = {}     # "module:Wrapper" -> catalogue name of the general class


def general_entry_for(qname, cls):
    """catalogue entry (general-class name) that describes cls, or None"""
    for e in CAT.values():
        if e["path"] == qname:
            return e["name"], False
    for b in cls.__mro__[1:]:
        for e in CAT.values():
            m, c = e["path"].split(":")
            if b.__name__ == c and b.__module__ == "exactpack.solvers." + m:
                return e["name"], True
    return None, False


def instantiate(ctx, cls, entry, rng, geom=None, tries=12, kwargs=None):
    """Construct cls with random admissible parameters of its (general) catalogue entry.
    Returns (solver, kwargs-as-passed, geom)."""
    e = CAT[entry]
    is_wrapper = (e["path"].split(":")[1] != cls.__name__) or \
        ("exactpack.solvers." + e["path"].split(":")[0] != cls.__module__)
    if geom is None:
        if is_wrapper and e["geoms"]:
            geom = getattr(cls, "geometry", e["geoms"][-1])
        elif e["geoms"]:
            geom = choice(rng, e["geoms"])
    kw = dict(kwargs) if kwargs is not None else e["gen"](rng, geom)
    full = dict(kw)
    if e["build"] is not None:
        s = ctx.quiet(e["build"], cls, kw)
        return s, kw, geom, full
    if is_wrapper:
        passed = {k: v for k, v in kw.items() if k in cls.parameters}
    else:
        passed = dict(kw)
        if e["geoms"] and "geometry" in cls.parameters:
            passed["geometry"] = geom
    s = ctx.make(cls, **passed)
    # parameters the wrapper fixes are read back from the instance so that domain() sees them
    for k in full:
        if k not in passed and hasattr(s, k):
            full[k] = getattr(s, k)
    return s, passed, geom, full


def admissible(sol):
    """returned thermodynamic fields are real, finite where they should be, rho >= 0, T >= 0"""
    names = sol.dtype.names
    for n in names:
        if sol[n].dtype.kind == "c":
            return False
    if "density" in names:
        d = np.asarray(sol["density"], dtype=float)
        if not np.all(np.isfinite(d)) or np.any(d < 0):
            return False
    for n in ("temperature", "temperature_mat", "temperature_rad"):
        if n in names:
            v = np.asarray(sol[n], dtype=float)
            if not np.all(np.isfinite(v)) or np.any(v < 0):
                return False
    return True


def draw(ctx, cls, entry, rng, n=5, tries=25, geom=None):
    """instantiate with admissible parameters and make one in-domain call.
    Returns dict(solver, passed, geom, full, points, t, sol) or None."""
    from .core import SolverRaised
    e = CAT[entry]
    for k in range(tries):
        try:
            s, passed, g, full = instantiate(ctx, cls, entry, rng, geom=geom)
            if e.get("admit") is not None and not e["admit"](s):
                ctx.count("inadmissible_draw:" + cls.__name__)
                continue
            pts, t = e["domain"](rng, s, full, g, n)
            if e["cost"] < 5 and rng.random() < 0.3:
                # three draws out of ten: the object has already been used, at another time and other points (what a
                # solver keeps on the instance between calls must not enter the result that the monitors judge)
                try:
                    p0, t0 = e["domain"](rng, s, full, g, n)
                    ctx.call(s, p0, t0)
                    ctx.count("drawn_solver_used_once_before:" + cls.__name__)
                except SolverRaised:
                    pass
            sol = ctx.call(s, pts, t)
        except SolverRaised:
            ctx.count("inadmissible_draw_raised:" + cls.__name__)
            continue
        if not admissible(sol):
            ctx.count("inadmissible_draw:" + cls.__name__)
            continue
        return dict(solver=s, passed=passed, geom=g, full=full, points=pts, t=t, sol=sol)
    ctx.count("no_admissible_draw:" + cls.__name__)
    return None

"""pytest plugin (loaded with `-p rtm.pytest_plugin`, never from a conftest in /repo): replays the repository's own
test-suite as a workload under the boundary monitors.  Active only when EXACTPACK_VERIF=1 and RTM_SUITE_OUT are set.

The universal online monitors of C03 (EOS relation), C05 (API contract) and C17 (positivity) observe every public
solver call the tests make; what they saw is dumped as one JSON per pytest worker process into $RTM_SUITE_OUT."""
import json
import os

_ctx = {}


def pytest_configure(config):
    if os.environ.get("EXACTPACK_VERIF") != "1" or not os.environ.get("RTM_SUITE_OUT"):
        return
    from rtm.core import Ctx
    from rtm import boundary
    which = os.environ.get("RTM_SUITE_MONITORS", "C03,C05").split(",")
    ctx = Ctx("SUITE", "thorough", 0)
    ctx.cur_unit = "suite"
    mons = []
    if "C03" in which:
        from rtm.props.c03 import eos_monitor
        mons.append(eos_monitor)
    if "C05" in which:
        from rtm.props.c05 import api_monitor
        mons.append(api_monitor)
    if "C17" in which:
        from rtm.props.c17 import positive_monitor
        mons.append(positive_monitor)
    boundary.install(ctx, mons)
    _ctx["ctx"] = ctx


def pytest_runtest_setup(item):
    ctx = _ctx.get("ctx")
    if ctx is not None:
        ctx.cur_params = dict(test=item.nodeid)
        ctx.cur_index = item.nodeid


def pytest_sessionfinish(session, exitstatus):
    ctx = _ctx.get("ctx")
    if ctx is None:
        return
    from rtm import boundary
    out = os.environ["RTM_SUITE_OUT"]
    os.makedirs(out, exist_ok=True)
    d = ctx.dump()
    d["boundary_events"], d["boundary_per_class"] = boundary.events()
    with open(os.path.join(out, "suite_%d.json" % os.getpid()), "w") as f:
        json.dump(d, f)

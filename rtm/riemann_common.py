"""Shared workload pieces for the 1-D Riemann monitors (C02, C04, C07, C09, C10, C17, C01)."""
import math

import numpy as np

from .core import logu, uni, choice, Skip, SolverRaised

STATE_KEYS = ("rl", "ul", "pl", "gl", "rr", "ur", "pr", "gr")
PATTERNS = ("SCS", "SCR", "RCS", "RCR")

JWL_SETS = {
    "Shyue": dict(A=8.545, B=0.205, R1=4.6, R2=1.35, r0=1.84, e0=0.0,
                  rl=1.7, ul=0.0, pl=10.0, gl=1.25, rr=1.0, ur=0.0, pr=0.5, gr=1.25),
    "Lee": dict(A=632.1, B=-0.04472, R1=11.3, R2=1.13, r0=1.905, e0=0.0,
                rl=0.9525, ul=0.0, pl=1.0, gl=1.8938, rr=3.81, ur=0.0, pr=2.0, gr=1.8938),
}


def pattern_of(soln_type):
    s = str(soln_type)
    if "-" in s:
        s = s.split("-")[-1]
    return s


def gen_state(rng, want=None, equal_gamma=False, pscale=1.0):
    """Random left/right ideal-gas states.  Velocity difference in units of the sound speeds so
    that all four wave patterns occur; both velocities of either sign and unequal."""
    gl = uni(rng, 1.1, 3.0)
    gr = gl if equal_gamma else uni(rng, 1.1, 3.0)
    rl, rr = logu(rng, 0.1, 10), logu(rng, 0.1, 10)
    pl, pr = logu(rng, 0.1, 10) * pscale, logu(rng, 0.1, 10) * pscale
    cl, cr = math.sqrt(gl * pl / rl), math.sqrt(gr * pr / rr)
    k = choice(rng, [uni(rng, -1.2, 1.2), uni(rng, -0.3, 0.3), uni(rng, 0.2, 1.5), uni(rng, -1.5, -0.2)])
    du = k * (cl + cr)
    um = uni(rng, -1.5, 1.5) * (cl + cr)
    mode = int(rng.integers(4))
    if mode == 0:
        ul, ur = um, um + du
    elif mode == 1:
        ul, ur = 0.0, du
    elif mode == 2:
        ul, ur = -du, 0.0
    else:
        ul, ur = -du / 2, du / 2
    # degenerate data (one case in eight): exactly equal thermodynamic states on the two sides (the solvers tell the sides
    # apart by comparing state values), exactly equal pressures or densities only, exactly symmetric collisions/separations
    if want is None and rng.random() < 0.125:
        kind = int(rng.integers(4))
        if kind == 0:          # twins: only the velocities differ
            rr, pr, gr = rl, pl, gl
        elif kind == 1:        # symmetric about the membrane
            rr, pr, gr = rl, pl, gl
            ul, ur = -du / 2, du / 2
        elif kind == 2:
            pr = pl
        else:
            rr = rl
        if kind in (0, 1) and du == 0.0:
            ur = ul + 0.3 * cl
    elif want is None and rng.random() < 0.2:
        # next to a boundary between two wave patterns: the velocity difference at which the left (p* = pl) or the right
        # (p* = pr) wave has zero strength, from the exact pressure-velocity functions (Toro's f_K), offset by
        # +-1e-9 ... 0.3 sound speeds - the solvers choose the pattern by comparing u_r - u_l with these values
        def fK(p, pk, rk, gk):
            ak = math.sqrt(gk * pk / rk)
            if p > pk:
                return (p - pk) * math.sqrt(2.0 / ((gk + 1.0) * rk) / (p + (gk - 1.0) / (gk + 1.0) * pk))
            return 2.0 * ak / (gk - 1.0) * ((p / pk) ** ((gk - 1.0) / (2.0 * gk)) - 1.0)
        dub = -fK(pr, pl, rl, gl) if rng.random() < 0.5 else -fK(pl, pr, rr, gr)
        eps = (1.0 if rng.random() < 0.5 else -1.0) * float(rng.choice([1e-9, 1e-6, 1e-3, 0.01, 0.03, 0.1, 0.2, 0.3]))
        ur = ul + dub + eps * (cl + cr)
    return dict(rl=rl, ul=ul, pl=pl, gl=gl, rr=rr, ur=ur, pr=pr, gr=gr)


def pattern_exact(st):
    """wave pattern of ideal-gas data from the exact pressure-velocity functions: the left (right) wave is a shock iff the
    star pressure exceeds pl (pr), i.e. iff f(pl) < 0 (f(pr) < 0) for the increasing function f(p) = fL(p) + fR(p) + ur - ul;
    None if a vacuum forms"""
    def fK(p, pk, rk, gk):
        ak = math.sqrt(gk * pk / rk)
        if p > pk:
            return (p - pk) * math.sqrt(2.0 / ((gk + 1.0) * rk) / (p + (gk - 1.0) / (gk + 1.0) * pk))
        return 2.0 * ak / (gk - 1.0) * ((p / pk) ** ((gk - 1.0) / (2.0 * gk)) - 1.0)
    du = st["ur"] - st["ul"]
    al, ar = math.sqrt(st["gl"] * st["pl"] / st["rl"]), math.sqrt(st["gr"] * st["pr"] / st["rr"])
    if du >= 2.0 * al / (st["gl"] - 1.0) + 2.0 * ar / (st["gr"] - 1.0):
        return None

    def f(p):
        return fK(p, st["pl"], st["rl"], st["gl"]) + fK(p, st["pr"], st["rr"], st["gr"]) + du
    return ("S" if f(st["pl"]) < 0 else "R") + "C" + ("S" if f(st["pr"]) < 0 else "R")


def gen_state_with_pattern(rng, want, tries=400):
    """random (non-degenerate) data whose exact solution has the wanted pattern; None if none was found"""
    for _ in range(tries):
        st = gen_state(rng, want="any")
        if pattern_exact(st) == want:
            return st
    return None


def gen_frame(rng, st, tscale=None):
    """membrane position and time"""
    xd0 = uni(rng, -3, 3)
    t = logu(rng, 0.02, 2.0)
    if rng.random() < 0.15:
        xd0 = 0.0                     # a membrane exactly at the origin is the most common choice of all
    return xd0, t


def solver_kwargs(st, xd0, xmin=None, xmax=None, extra=None):
    kw = {k: float(st[k]) for k in STATE_KEYS}
    kw["xd0"] = float(xd0)
    if xmin is not None:
        kw["xmin"] = float(xmin)
    if xmax is not None:
        kw["xmax"] = float(xmax)
    for k in ("A", "B", "R1", "R2", "r0", "e0"):
        if k in st:
            kw[k] = float(st[k])
    if "problem" in st:
        kw["problem"] = st["problem"]
    if extra:
        kw.update(extra)
    return kw


def make_solver(ctx, which, st, xd0, xmin=None, xmax=None, extra=None):
    from exactpack.solvers.riemann.ep_riemann import IGEOS_Solver, GenEOS_Solver
    cls = IGEOS_Solver if which == "IGEOS" else GenEOS_Solver
    if xmin is None:
        xmin = xd0 - 1.0
    if xmax is None:
        xmax = xd0 + 1.37             # deliberately not centred on the membrane

    return ctx.make(cls, **solver_kwargs(st, xd0, xmin, xmax, extra))


def geneos_cell(ctx, st, xd0, a, b, t):
    """cell size of the grid the general-EOS solver actually uses for the window [a, b]: it widens the window to 1.1 x the
    extreme wave positions in absolute coordinates, which far from the origin is much wider than the waves"""
    s = make_solver(ctx, "GenEOS", st, xd0, a, b)
    ctx.call(s, np.array([xd0]), t)
    gx = np.asarray(s.x, dtype=float)
    return max((b - a) / 10000.0, float(gx.max() - gx.min()) / max(len(gx) - 1, 1))


def probe(ctx, which, st, xd0, t):
    """One cheap call to learn the wave pattern and speeds (solver attributes soln_type, Vregs).
    Raises SolverRaised for vacuum-forming / out-of-bracket states (loud, counted)."""
    s = make_solver(ctx, which, st, xd0)
    ctx.call(s, np.array([xd0]), t)
    # near-vacuum star states: the ideal-gas solver finds p* with bisect's default *absolute*
    # xtol = 2e-12, so a star pressure below ~1e-7 (user units) is known to fewer than 5 digits and
    # below ~1e-11 not at all.  That loss of accuracy is recorded under C08 (it breaks scale
    # invariance); relational monitors cannot decide anything on such a case and skip it (counted).
    pmin = float(np.min(np.asarray(s.p, dtype=float)))
    if not (pmin > 1e-7):
        ctx.count("near_vacuum_star_state_skipped")
        raise Skip("near_vacuum_star_pressure_below_root_tolerance")
    return pattern_of(s.soln_type), np.array(s.Vregs, dtype=float)


def flux(rho, u, p, e):
    E = rho * (e + 0.5 * u * u)
    return np.array([rho, rho * u, E]), np.array([rho * u, rho * u * u + p, u * (E + p)])


def pieces(Vregs, xd0, t, a, b):
    """break points of the solution inside [a,b], from the solver's wave speeds"""
    X = [a] + [xd0 + t * v for v in Vregs] + [b]
    return X


def bisect_floors(sol, st, dp=2e-11):
    """Accuracy of the ideal-gas solver's own numerics: the star pressure comes from
    scipy.optimize.bisect with its default *absolute* xtol = 2e-12, so p* is only known to
    ~2e-12 in the user's pressure units.  Propagated to the other fields with the acoustic
    relations du = dp/(rho c), drho = dp/c^2, de = dp/((g-1) rho) + p drho/((g-1) rho^2); evaluated
    with the returned fields (near-vacuum star states have tiny rho c, which is where this matters).
    dp = 10 x xtol."""
    rho = np.array(sol["density"], dtype=float)
    p = np.array(sol["pressure"], dtype=float)
    gmin = min(st["gl"], st["gr"])
    with np.errstate(all="ignore"):
        c2 = gmin * p / rho
        rc = rho * np.sqrt(c2)
        fu = dp / np.nanmin(rc)
        fr = dp / np.nanmin(c2)
        fe = np.nanmax(dp / ((gmin - 1) * rho) + p * (dp / c2) / ((gmin - 1) * rho ** 2))
    out = dict(floor_pressure=dp, floor_velocity=float(fu), floor_density=float(fr),
               floor_specific_internal_energy=float(fe))
    return {k: (v if math.isfinite(v) else 0.0) for k, v in out.items()}

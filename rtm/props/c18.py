"""C18 - Su-Olson temperatures solve the non-equilibrium Marshak diffusion problem.

From the temperatures returned by the public call, with the constants of so_wave
(a = 4 sigma/c, k_B), u = (T_rad/T_bc)^4, v = (T_mat/T_bc)^4, x = sqrt(3) kappa z,
tau = 4 a c kappa t / alpha, epsilon = 4a/alpha:
  so.pde.u     epsilon u_tau = u_xx + v - u
  so.pde.v     v_tau = u - v
  so.marshak   u - (2/sqrt 3) u_x = 1 at x = 0 (one-sided 5-point stencil)
  so.decay     u, v -> 0 for x far beyond the wave (x >> tau/epsilon + sqrt(tau))
  so.order     0 <= v <= u <= 1 on the sampled points
"""
import math

import numpy as np

from ..core import Unit, Skip, SolverRaised, logu, uni, choice
from ..oracles import derivs9, OFF9, residual

RULE = ("opacity, alpha (epsilon 0.05-2), boundary temperature over decades; (x,tau) in [0.05,6]x[0.05,20].  "
        "distinct = (monitor, SuOlson, epsilon class, case); non-trivial = u above 1e-6.")
ASSUME = ["the solver integrates oscillatory integrals to ~1e-6; finite-difference steps 0.2 in x and 10 % in tau keep the "
          "amplified quadrature noise below the 1e-4 tolerance (measured residuals <= 2e-6)"]

CLIGHT, SSOL, KEV = 2.99792458e10, 5.67051e-5, 8.617385e-5
ASOL = 4.0 * SSOL / CLIGHT
RT3 = math.sqrt(3.0)


REGRESSION = [  # far-field position bands where the piecewise quadrature used to stop early (fixed in 42e3d5a)
    dict(trad_bc_ev=279.5492617426333, opac=0.3027078068389274, eps=0.1, x=1.158038838748955, tau=13.820528111401947, kind="decay"),
    dict(trad_bc_ev=1000.0, opac=1.0, eps=0.1, x=1.0, tau=19.064, kind="decay"),
]


def gen(rng, i, tier):
    if i in (3, 7):
        return dict(REGRESSION[(i - 3) // 4])
    # epsilon = 4a/alpha "from 0.1 to 1 and beyond": the two tabulated values, larger ones (a small specific-heat
    # coefficient) enumerated, the rest drawn over 0.05 ... 20
    eps = [0.1, 1.0, 10.0, 3.0, 20.0, 0.3][(i // 4) % 6] if (i // 4) % 2 == 0 else logu(rng, 0.05, 20.0)
    kind = ["pde", "pde", "marshak", "decay"][i % 4]
    tau = logu(rng, 0.1, 20)
    if kind == "marshak" and rng.random() < 0.5:
        tau = uni(rng, 1.0, 5.0)
    return dict(trad_bc_ev=logu(rng, 10, 1e4), opac=logu(rng, 0.1, 10), eps=eps, x=uni(rng, 0.3, 4.0), tau=tau, kind=kind)


def rng_for(p):
    return np.random.default_rng(abs(hash((round(p["tau"], 9), round(p["opac"], 9)))) % (2 ** 32))


def uv(ctx, s, z, t, Tbc):
    # the positions are passed in a scrambled order (a permutation determined by the request) and the records put back: the
    # property is about the value at a position, whatever the order of the request
    z = np.atleast_1d(np.asarray(z, float))
    perm = np.random.default_rng([len(z), int(abs(float(z[0])) * 1e9) % (2 ** 31), int(abs(float(t)) * 1e18) % (2 ** 31)]).permutation(len(z))
    sol = ctx.call(s, z[perm], t)
    inv = np.argsort(perm)
    return (np.asarray(sol["temperature_rad"], float)[inv] / Tbc) ** 4, (np.asarray(sol["temperature_mat"], float)[inv] / Tbc) ** 4


def run(ctx, p):
    from exactpack.solvers.suolson.suolson import SuOlson
    eps, kap, Tbc = p["eps"], p["opac"], p["trad_bc_ev"]
    alpha = 4.0 * ASOL / eps
    s = ctx.make(SuOlson, trad_bc_ev=Tbc, opac=kap, alpha=alpha)
    tau = p["tau"]
    t = tau * alpha / (4.0 * ASOL * CLIGHT * kap)
    z_of = lambda x: x / (RT3 * kap)          # noqa: E731
    br = "eps=%.2g" % eps if eps in (0.1, 1.0) else ("eps<0.3" if eps < 0.3 else "eps>=0.3")
    det = dict(params=dict(trad_bc_ev=Tbc, opac=kap, alpha=alpha), eps=eps, tau=tau)
    if p["kind"] == "pde":
        # probe where the wave is (u not negligible): x <= ~ 2 sqrt(tau/eps) + 1
        x0 = min(p["x"], 0.3 + 1.5 * math.sqrt(tau / eps))
        hx = min(0.2, 0.4 * x0)
        ht = 0.1 * tau
        U, V = uv(ctx, s, z_of(x0 + OFF9 * hx / 2), t, Tbc)
        Ut, Vt = np.zeros(9), np.zeros(9)
        for j, k in enumerate(OFF9):
            if k == 0:
                Ut[j], Vt[j] = U[4], V[4]
            else:
                a, b = uv(ctx, s, z_of(x0), t * (1 + k * 0.05), Tbc)
                Ut[j], Vt[j] = a[0], b[0]
        u, _, _, uxx, e_uxx = derivs9(U, hx)
        v = V[4]
        _, ut, e_ut, _, _ = derivs9(Ut, ht)
        _, vt, e_vt, _, _ = derivs9(Vt, ht)
        # quadrature noise of the solver (tol 1e-6 relative) amplified by the stencils
        # (relative 3e-7 where u is of order one; the integrals carry an absolute, point-to-point noise of a few 1e-8, which is what
        #  counts where u and v are small - large epsilon at early times, the foot of the wave)
        nz = 3e-7 * max(u, 1e-12) + 3e-8
        e_uxx += 16 * nz / (hx / 2) ** 2 * 0.1
        e_ut += 4 * nz / (ht / 2) * 0.3
        e_vt += 4 * nz / (ht / 2) * 0.3
        det2 = dict(det, x=x0, u=float(u), v=float(v))
        nontriv = u > 1e-6
        ok, res, sc = residual([eps * ut, -uxx, -(v - u)], [eps * e_ut, e_uxx], tol=1e-4)
        ctx.observe("so.pde.u", "SuOlson", ok if nontriv else True, branch=br, measure=res, tol=1e-4, detail=det2, nontrivial=nontriv)
        ok, res, sc = residual([vt, -(u - v)], [e_vt], tol=1e-4)
        ctx.observe("so.pde.v", "SuOlson", ok if nontriv else True, branch=br, measure=res, tol=1e-4, detail=det2, nontrivial=nontriv)
        ctx.observe("so.order", "SuOlson", bool(np.all(V <= U * (1 + 1e-5) + 5e-5) and np.all(U <= 1 + 1e-5) and np.all(V >= -5e-5) and np.all(U >= -5e-5)), branch=br,
                    detail=dict(det2, U=U.tolist(), V=V.tolist()))
    elif p["kind"] == "marshak":
        # one-sided 4th-order stencil at two spacings: the finer one is the value, their difference the truncation estimate
        # (the boundary layer is sqrt(tau/epsilon) thick: steep for large epsilon at early times); noise 2e-6/h in u_x
        h = min(0.05, 0.2 * math.sqrt(tau / eps))
        lh = []
        for hh in (2 * h, h):
            U, V = uv(ctx, s, z_of(np.arange(5) * hh), t, Tbc)
            ux = (-25 * U[0] + 48 * U[1] - 36 * U[2] + 16 * U[3] - 3 * U[4]) / (12 * hh)
            lh.append(U[0] - (2.0 / RT3) * ux)
        lhs = lh[1]
        tol = 2e-4 + 2.0 * abs(lh[1] - lh[0]) + (2.0 / RT3) * 4e-6 / h
        ctx.observe("so.marshak", "SuOlson", abs(lhs - 1.0) <= tol, branch=br, measure=abs(lhs - 1.0), tol=tol, detail=dict(det, u0=float(U[0]), ux=float(ux)))
    else:
        # well ahead of the wave (the radiation front cannot be beyond x = sqrt(3) tau/eps; diffusion adds ~2 sqrt(tau/eps)).
        # The solver's oscillatory quadrature has an absolute accuracy of ~1e-5 in u and v which degrades slowly
        # with x (measured 1e-4 at x = 650): "decays to zero" is decided to 5e-5 at 10-30 mean free paths beyond the wave.
        xw = RT3 * tau / eps + 2.0 * math.sqrt(tau / eps)
        xf = xw + 10.0
        # 41 positions: the quadrature's failure mode is narrow bands of positions (width ~0.15), not a smooth excess
        U, V = uv(ctx, s, z_of(np.concatenate([[xf, xf + 10.0, xf + 20.0], xf + rng_for(p).uniform(0.0, 20.0, 38)])), t, Tbc)
        m = max(float(np.max(np.abs(U))), float(np.max(np.abs(V))))
        ctx.observe("so.decay", "SuOlson", m <= 5e-5, branch=br, measure=m, tol=5e-5, detail=dict(det, x=xf, U=U.tolist(), V=V.tolist()))
        # a whole profile in one (scrambled) request - points behind the wave together with points far ahead of it - gives
        # each point the value it has when the points behind the wave are asked for on their own
        near = np.linspace(0.05, max(0.5 * xw, 0.2), 6)
        Un, Vn = uv(ctx, s, z_of(near), t, Tbc)
        # (far ahead: beyond the wave and beyond 16 diffusion lengths sqrt(tau/eps), where nothing has arrived yet)
        far = max(xf, 17.0 * math.sqrt(tau / eps)) + np.array([0.0, 5.0, 12.0, 19.0, 26.0, 33.0, 47.0])
        Ua, Va = uv(ctx, s, z_of(np.concatenate([near, far])), t, Tbc)
        dmix = max(float(np.max(np.abs(Ua[:6] - Un))), float(np.max(np.abs(Va[:6] - Vn))))
        ctx.observe("so.order", "SuOlson", dmix <= 1e-9, branch="profile with far-field points " + br, measure=dmix, tol=1e-9,
                    detail=dict(det, near=near.tolist(), alone=Un.tolist(), in_profile=Ua[:6].tolist()))


UNITS = [Unit("probe", gen, run, quick=96, thorough=1600, min_nontrivial=60)]

"""C16 - EOS library closures, partial derivatives, residual Jacobians, Newton result.

Monitors
  eos.closure    icontract postconditions installed on the real ``e`` and ``P`` methods of
                 every EOS class: P(rho, e(rho,P)) == P and e(rho, P(rho,e)) == e.  They fire
                 on every call the workload makes, including the states the Newton
                 iteration visits.
  eos.deriv      each analytic partial derivative vs. a 4th-order difference (with its own
                 error bar) of the closure it belongs to, called the way the residual
                 functions call it: positionally as (rho, P) or (rho, e).
  resid.jacobian F_prime entry-wise vs. differences of F, tolerance relative to row scale.
  resid.inverse  F_prime_inv @ F_prime == I.
  newton.jump    when solve()/solve_jump_conditions() returns from a physically reasonable
                 starting guess (reference root of a scalar model, perturbed <= 20 %), the
                 three documented jump conditions hold and D > 0.
"""
import math

import numpy as np

from ..core import Unit, Skip, SolverRaised, logu, uni, choice
from ..oracles import derivs9, OFF9

RULE = ("EOS class x random admissible constants x random state (both sides of the Steinberg "
        "reference density); residual class x geometry x initial state (P0 != 0 in planar "
        "cases) x EOS.  A case is non-trivial when the oracle compared two non-zero numbers; "
        "distinct = distinct (monitor, EOS/residual class, quantity/entry, case).")
ASSUME = ["4th-order central differences with Richardson error bars are an adequate reference "
          "for analytic derivatives (relative tolerance 1e-7 plus 10x the error bar)",
          "'physically reasonable starting guess' = within 20 % of the root of the scalar "
          "jump-condition model evaluated with the same EOS object"]

EOS_NAMES = ["ideal", "stiffened", "noble_abel", "carnahan_starling", "steinberg", "aluminum"]
RESIDS = ["energy_noh_residual", "pressure_noh_residual",
          "simplified_energy_noh_residual", "simplified_pressure_noh_residual"]

_guard = {"on": False}
_ctxref = {}


class ClosureBroken(Exception):
    pass


def make_eos(name, c):
    from exactpack.solvers.nohblackboxeos.equations_of_state import eos_library as L
    if name == "ideal":
        return L.ideal_gas_eos(gamma=c["gamma"])
    if name == "stiffened":
        return L.stiffened_gas_eos(gamma=c["gamma"], c_s=c["c_s"], rho_inf=c["rho_inf"])
    if name == "noble_abel":
        return L.noble_abel_eos(gamma=c["gamma"], b=c["b"])
    if name == "carnahan_starling":
        return L.carnahan_starling_eos(gamma=c["gamma"], b=c["b"])
    if name == "steinberg":
        return L.steinberg(c["rho_ref"], c["p_ref"], c["g_ref"], c["b"], c["c_0"],
                           c["s_1"], c["s_2"], c["s_3"])
    if name == "aluminum":
        return L.aluminum_eos()
    raise KeyError(name)


def gen_consts(rng, name):
    if name == "ideal":
        return dict(gamma=uni(rng, 1.05, 3.0))
    if name == "stiffened":
        return dict(gamma=uni(rng, 1.1, 3.0), c_s=logu(rng, 0.1, 10), rho_inf=logu(rng, 0.1, 10))
    if name == "noble_abel":
        return dict(gamma=uni(rng, 1.1, 3.0), b=logu(rng, 1e-3, 0.2))
    if name == "carnahan_starling":
        return dict(gamma=uni(rng, 1.1, 3.0), b=logu(rng, 1e-3, 0.2))
    if name == "steinberg":
        return dict(rho_ref=logu(rng, 0.5, 10), p_ref=choice(rng, [0.0, logu(rng, 1e-3, 1.0)]),
                    g_ref=uni(rng, 0.5, 2.5), b=uni(rng, 0.1, 1.5), c_0=logu(rng, 0.1, 10),
                    s_1=uni(rng, 0.8, 1.8), s_2=uni(rng, -0.2, 0.2), s_3=uni(rng, -0.1, 0.1))
    return {}


def rho_range(name, c):
    """admissible density interval of the EOS"""
    if name in ("noble_abel", "carnahan_starling"):
        return 0.05, 0.6 / c["b"]
    if name == "steinberg":
        return 0.55 * c["rho_ref"], 1.45 * c["rho_ref"]
    if name == "aluminum":
        return 0.55 * 2.703, 1.45 * 2.703
    return 0.05, 20.0


def gen_state(rng, name, c):
    lo, hi = rho_range(name, c)
    rho = logu(rng, lo, hi)
    ref = c.get("rho_ref", 2.703 if name == "aluminum" else None)
    if ref is not None:
        # keep the difference stencil (|h| = 2e-3 rho) on one side of the reference density
        if abs(rho - ref) < 0.01 * ref:
            rho = ref * (1.02 if rng.random() < 0.5 else 0.98)
    if name == "aluminum":
        e = logu(rng, 1e9, 1e12)
    elif name == "steinberg":
        e = logu(rng, 0.01, 10) * c["c_0"] ** 2
    else:
        e = logu(rng, 0.01, 100)
    return rho, e


# ---- online closure contract on the real EOS methods --------------------------------------
def _install_contracts(ctx):
    import icontract
    from exactpack.solvers.nohblackboxeos.equations_of_state import eos_library as L
    _ctxref["ctx"] = ctx

    def record(self, kind, given, back, natural):
        c = _ctxref["ctx"]
        name = type(self).__name__
        scale = max(abs(given), abs(back), abs(natural))
        if not (math.isfinite(given) and math.isfinite(back)):
            c.count("closure_contract_nonfinite:" + name)
            return
        ok = abs(given - back) <= 1e-10 * scale + 1e-300
        c.observe("eos.closure", name, ok, branch=kind, measure=abs(given - back) / (scale or 1.0),
                  tol=1e-10, detail=dict(given=given, roundtrip=back, natural_scale=natural),
                  nontrivial=abs(given) > 0)

    def post_e(self, rho, P, result):
        if _guard["on"]:
            return True
        _guard["on"] = True
        try:
            back = self.P(rho, result)
            record(self, "P(rho,e(rho,P))", float(P), float(back), float(rho) * float(result))
        except Exception:
            _ctxref["ctx"].count("closure_contract_raise:" + type(self).__name__)
        finally:
            _guard["on"] = False
        return True

    def post_P(self, rho, e, result):
        if _guard["on"]:
            return True
        _guard["on"] = True
        try:
            back = self.e(rho, result)
            record(self, "e(rho,P(rho,e))", float(e), float(back), float(result) / float(rho))
        except Exception:
            _ctxref["ctx"].count("closure_contract_raise:" + type(self).__name__)
        finally:
            _guard["on"] = False
        return True

    for cls in (L.ideal_gas_eos, L.stiffened_gas_eos, L.noble_abel_eos, L.carnahan_starling_eos,
                L.generic_mie_gruneisen, L.steinberg):
        if "e" in cls.__dict__:
            cls.e = icontract.ensure(post_e, error=ClosureBroken)(cls.__dict__["e"])
        if "P" in cls.__dict__:
            cls.P = icontract.ensure(post_P, error=ClosureBroken)(cls.__dict__["P"])


def setup(ctx):
    _install_contracts(ctx)


# ---- unit: closures + derivatives ---------------------------------------------------------------
def gen_eos(rng, i, tier):
    name = EOS_NAMES[i % len(EOS_NAMES)]
    c = gen_consts(rng, name)
    rho, e = gen_state(rng, name, c)
    return dict(eos=name, consts=c, rho=rho, e=e)


def _fd(f, x, h):
    vals = np.array([float(f(x + j * h / 2.0)) for j in OFF9])
    _, d, err, _, _ = derivs9(vals, h)
    return float(d), float(err)


def run_eos(ctx, p):
    name, c = p["eos"], p["consts"]
    eos = ctx.quiet(make_eos, name, c)
    cname = type(eos).__name__
    rho, e = p["rho"], p["e"]
    P = float(ctx.quiet(eos.P, rho, e))          # closure contract fires here
    e_back = float(ctx.quiet(eos.e, rho, P))     # ... and here
    side = ""
    ref = c.get("rho_ref", 2.703 if name == "aluminum" else None)
    if ref is not None:
        side = "rho>=ref" if rho >= ref else "rho<ref"
    hr = 2e-3 * rho
    checks = [
        ("dP_drho", lambda: eos.dP_drho(rho, e), lambda x: eos.P(x, e), rho, hr),
        ("dP_de", lambda: eos.dP_de(rho, e), lambda x: eos.P(rho, x), e, 2e-3 * abs(e)),
        ("de_drho", lambda: eos.de_drho(rho, P), lambda x: eos.e(x, P), rho, hr),
        ("de_dP", lambda: eos.de_dP(rho, P), lambda x: eos.e(rho, x), P, 2e-3 * abs(P)),
    ]
    _guard["on"] = True   # the difference stencils are not part of the closure workload
    try:
        for qname, ana, clo, x0, h in checks:
            if h == 0:
                continue
            try:
                a = float(ana())
                d, err = _fd(clo, x0, h)
            except Exception as ex:
                ctx.count("deriv_raise:%s:%s:%s" % (cname, qname, type(ex).__name__))
                continue
            scale = max(abs(a), abs(d))
            tol = 1e-7 * scale + 10 * err
            ok = abs(a - d) <= tol
            if ok and 10 * err > 1e-3 * scale and scale > 0:
                ok = None
            ctx.observe("eos.deriv", cname, ok, branch=qname + ("@" + side if side else ""),
                        measure=abs(a - d) / (scale or 1.0), tol=1e-7,
                        detail=dict(analytic=a, finite_difference=d, fd_err=err, rho=rho, e=e, P=P),
                        nontrivial=scale > 0)
    finally:
        _guard["on"] = False


# ---- unit: residual Jacobians -------------------------------------------------------------------
def rho_admissible(eos, rho):
    n = type(eos).__name__
    if n in ("noble_abel_eos", "carnahan_starling_eos"):
        return eos.b * rho < 0.7
    if hasattr(eos, "reference_density"):
        eta = 1 - eos.reference_density / rho
        return eta < 0.6 / max(eos.s_1, 0.5)
    return True


def ref_root(eos, ic):
    """Scalar reference model of the Noh jump conditions: root in D>0 of
    e_L(D) - eos.e(rho_L(D), P_L(D))."""
    from scipy.optimize import brentq
    u0, r0, P0, m = ic["velocity"], ic["density"], ic["pressure"], ic["symmetry"]
    e0 = eos.e(r0, P0)

    def g(D):
        rl = r0 * (1 - u0 / D) ** (m + 1)
        pl = P0 - rl * u0 * D
        el = e0 + 0.5 * u0 ** 2 - u0 * P0 / (rl * D)
        return el - eos.e(rl, pl)
    Ds = np.geomspace(1e-3 * abs(u0), 1e3 * abs(u0), 400)
    vals = []
    for D in Ds:
        try:
            v = float(g(D))
        except Exception:
            v = float("nan")
        vals.append(v)
    for k in range(len(Ds) - 1):
        a, b = vals[k], vals[k + 1]
        if math.isfinite(a) and math.isfinite(b) and a * b < 0:
            try:
                D = brentq(g, Ds[k], Ds[k + 1], xtol=1e-15, rtol=1e-14)
            except Exception:
                continue
            rl = r0 * (1 - u0 / D) ** (m + 1)
            pl = P0 - rl * u0 * D
            el = e0 + 0.5 * u0 ** 2 - u0 * P0 / (rl * D)
            if rl > 0 and pl > 0 and rho_admissible(eos, 1.3 * rl):
                return rl, pl, el, D
    return None


def gen_ic(rng, name, c, planar_p0):
    m = int(rng.integers(0, 3))
    if name == "aluminum":
        u0 = -logu(rng, 1e4, 3e5)
        r0 = 2.703 * uni(rng, 0.97, 1.0)
    elif name == "steinberg":
        u0 = -logu(rng, 0.05, 1.0) * c["c_0"]
        r0 = c["rho_ref"] * uni(rng, 0.9, 1.0)
    elif name in ("noble_abel", "carnahan_starling"):
        u0 = -logu(rng, 0.3, 3)
        r0 = logu(rng, 0.01, 0.05) / c["b"]
    elif name == "stiffened":
        u0 = -logu(rng, 0.3, 3)
        r0 = c["rho_inf"] * uni(rng, 1.0, 1.5)
    else:
        u0 = -logu(rng, 0.1, 10)
        r0 = logu(rng, 0.1, 10)
    P0 = 0.0
    if planar_p0:
        m = 0
        if name == "aluminum":
            P0 = logu(rng, 1e8, 1e10)
        elif name == "steinberg":
            P0 = logu(rng, 1e-3, 1e-1) * r0 * c["c_0"] ** 2
        else:
            P0 = logu(rng, 1e-3, 0.3) * r0 * u0 ** 2
    return dict(density=r0, velocity=u0, pressure=P0, symmetry=m)


def gen_resid(rng, i, tier):
    rname = RESIDS[i % 4]
    name = EOS_NAMES[(i // 4) % len(EOS_NAMES)]
    c = gen_consts(rng, name)
    simplified = rname.startswith("simplified")
    planar_p0 = (not simplified) and rng.random() < 0.5
    ic = gen_ic(rng, name, c, planar_p0)
    if simplified:
        ic["symmetry"], ic["pressure"] = 0, 0.0
    pert = [uni(rng, 0.8, 1.25) for _ in range(3)]
    return dict(resid=rname, eos=name, consts=c, ic=ic, pert=pert)


def run_resid(ctx, p):
    from exactpack.solvers.nohblackboxeos.solution_tools import residual_functions as R
    name, c, ic = p["eos"], p["consts"], p["ic"]
    eos = ctx.quiet(make_eos, name, c)
    rcls = getattr(R, p["resid"])
    fn = ctx.quiet(rcls, dict(ic), eos)
    _guard["on"] = True
    try:
        root = ref_root(eos, ic)
    finally:
        _guard["on"] = False
    if root is None:
        raise Skip("no_reference_root")
    rl, pl, el, D = root
    energy_form = "energy" in p["resid"]
    x = [rl * p["pert"][0], (pl if energy_form else el) * p["pert"][1], D * p["pert"][2]]
    ref = c.get("rho_ref", 2.703 if name == "aluminum" else None)
    if ref is not None and abs(x[0] - ref) < 0.01 * ref:
        x[0] = ref * 1.02
    n = 2 if p["resid"].startswith("simplified") else 3
    x = np.array(x[:n], dtype=float)
    branch = "m=%d,P0%s0" % (ic["symmetry"], "!=" if ic["pressure"] else "=")
    _guard["on"] = True
    try:
        try:
            J = np.array(fn.F_prime(list(x)), dtype=float).copy()
            Jinv = np.array(fn.F_prime_inv(list(x)), dtype=float).copy()
        except Exception as ex:
            ctx.count("jacobian_raise:%s:%s" % (p["resid"], type(ex).__name__))
            raise Skip("jacobian_raise")
        FD = np.zeros((n, n))
        ER = np.zeros((n, n))
        for j in range(n):
            h = 2e-3 * abs(x[j])
            cols = []
            for k in OFF9:
                y = x.copy()
                y[j] += k * h / 2.0
                cols.append(np.array(fn.F(list(y)), dtype=float).copy())
            cols = np.array(cols).T          # (n, 9)
            _, d, err, _, _ = derivs9(cols, h)
            FD[:, j], ER[:, j] = d, err
    finally:
        _guard["on"] = False
    for i in range(n):
        rowscale = max(np.max(np.abs(J[i]) * np.abs(x)), np.max(np.abs(FD[i]) * np.abs(x)))
        for j in range(n):
            diff = abs(J[i, j] - FD[i, j]) * abs(x[j])
            tol = 1e-6 * rowscale + 10 * ER[i, j] * abs(x[j])
            ok = diff <= tol
            nontriv = max(abs(J[i, j]), abs(FD[i, j])) * abs(x[j]) > 1e-9 * rowscale
            ctx.observe("resid.jacobian", p["resid"], bool(ok), branch="[%d,%d] %s" % (i, j, branch),
                        measure=diff / (rowscale or 1.0), tol=1e-6,
                        detail=dict(entry=[i, j], analytic=J[i, j], finite_difference=FD[i, j],
                                    eos=name, state=x.tolist(), P0=ic["pressure"]),
                        nontrivial=bool(nontriv))
    # inverse: compare in scaled variables so that units of the rows/columns do not matter
    S = np.diag(np.abs(x))
    row = np.max(np.abs(J @ S), axis=1)
    Jn = (J @ S) / row[:, None]
    Jinvn = np.linalg.inv(S) @ Jinv * row[None, :]
    dev = float(np.max(np.abs(Jinvn @ Jn - np.eye(n))))
    cond = float(np.linalg.cond(Jn))
    tol = 1e-9 * max(cond, 1.0)
    ctx.observe("resid.inverse", p["resid"], dev <= tol, branch=branch, measure=dev, tol=tol,
                detail=dict(eos=name, cond=cond, state=x.tolist()))


# ---- unit: Newton result -------------------------------------------------------------------------
def gen_newton(rng, i, tier):
    p = gen_resid(rng, i, tier)
    p["via"] = choice(rng, ["newton_solver", "NohBlackBoxEos"]) if p["resid"] == "pressure_noh_residual" \
        else "newton_solver"
    p["pert"] = [uni(rng, 0.85, 1.2) for _ in range(3)]
    # every other case re-uses an object that was set up for another initial state first (residual:
    # set_new_initial_conditions; solver: edited initial_conditions + a second solve_jump_conditions)
    p["reuse"] = bool((i // 24) % 2)       # blocks of 24 = all residual x EOS combinations
    p["decoy"] = [uni(rng, 1.1, 1.6), uni(rng, 1.5, 3.0), uni(rng, 0.5, 0.9)]
    return p


def run_newton(ctx, p):
    from exactpack.solvers.nohblackboxeos.solution_tools import residual_functions as R
    from exactpack.solvers.nohblackboxeos.solution_tools.newton_solvers import newton_solver
    from exactpack.solvers.nohblackboxeos import NohBlackBoxEos
    name, c, ic = p["eos"], p["consts"], dict(p["ic"])
    eos = ctx.quiet(make_eos, name, c)
    _guard["on"] = True
    try:
        root = ref_root(eos, ic)
    finally:
        _guard["on"] = False
    if root is None:
        raise Skip("no_reference_root")
    rl, pl, el, D = root
    energy_form = "energy" in p["resid"]
    simplified = p["resid"].startswith("simplified")
    if name == "carnahan_starling" and energy_form:
        # documented: "some EoSs (such as Carnahan-Starling) do not work well with the
        # e = e(rho,P) formulation" - not a physically reasonable way to start this solver
        raise Skip("CS_with_energy_form_documented_unsuitable")
    r0_, P0_ = ic["density"], ic["pressure"]
    _guard["on"] = True
    try:
        e0_ = float(eos.e(r0_, P0_))
    finally:
        _guard["on"] = False
    # physically reasonable: the *jumps* (not the absolute values) are off by up to 20 %, so the
    # guess stays on the compressed side of the initial state
    guess = [r0_ + (rl - r0_) * p["pert"][0],
             (P0_ + (pl - P0_) * p["pert"][1]) if energy_form else (e0_ + (el - e0_) * p["pert"][1]),
             D * p["pert"][2]]
    if simplified:
        guess = guess[:2]
    scaleF = max(abs(pl), abs(el), abs(rl))
    tolN = min(1e-2, max(1e-10, 1e-9 * scaleF))
    reuse = bool(p.get("reuse"))
    ic_decoy = dict(ic, density=ic["density"] * p.get("decoy", [1.3, 2.0, 0.7])[0], pressure=ic["pressure"] * p.get("decoy", [1.3, 2.0, 0.7])[1],
                    velocity=ic["velocity"] * p.get("decoy", [1.3, 2.0, 0.7])[2])
    if reuse and not rho_admissible(eos, ic_decoy["density"]):
        reuse = False
    if p["via"] == "NohBlackBoxEos":
        if reuse:
            # solve another problem first, then edit the stored initial conditions as the class documents and solve again
            s = ctx.make(NohBlackBoxEos, eos, dict(ic_decoy), geometry=ic["symmetry"] + 1)
            try:
                s.set_new_solver_tolerance(tolN)
                ctx.quiet(s.solve_jump_conditions)
            except Exception:
                ctx.count("decoy_solve_raised")
            for k_ in ("density", "pressure", "velocity"):
                s.initial_conditions[k_] = ic[k_]
            ctx.count("reused_solver_objects")
        else:
            s = ctx.make(NohBlackBoxEos, eos, ic, geometry=ic["symmetry"] + 1)
        s.set_new_solver_tolerance(tolN)
        s.set_new_solver_initial_guess(list(guess))
        ctx.quiet(s.solve_jump_conditions)
        rho, e, Dn = float(s.shocked_density), float(s.shocked_energy), float(s.shock_speed)
        P = float(s.shocked_pressure)
        its = s.solution_data["number_of_iterations"]
    else:
        if reuse and hasattr(getattr(R, p["resid"]), "set_new_initial_conditions"):
            fn = ctx.quiet(getattr(R, p["resid"]), dict(ic_decoy), eos)
            fn.set_new_initial_conditions(dict(ic))
            ctx.count("reused_residual_objects")
        else:
            fn = ctx.quiet(getattr(R, p["resid"]), ic, eos)
        ns = newton_solver()
        ns.set_function(fn)
        ns.set_new_tolerance(tolN)
        ns.set_new_max_iteration(200)
        ns.set_new_initial_guess(list(guess))
        out = ctx.quiet(ns.solve, verbose=False)
        sol = out["solution"]
        its = out["number_of_iterations"]
        rho = float(sol[0])
        _guard["on"] = True
        try:
            if energy_form:
                P = float(sol[1]); e = float(eos.e(rho, P))
            else:
                e = float(sol[1]); P = float(eos.P(rho, e))
        finally:
            _guard["on"] = False
        if simplified:
            # planar, P0=0: the two-variable systems eliminate D; it follows from mass conservation
            Dn = -ic["velocity"] * ic["density"] / (rho - ic["density"])
        else:
            Dn = float(sol[2])
    u0, r0, P0, m = ic["velocity"], ic["density"], ic["pressure"], ic["symmetry"]
    _guard["on"] = True
    try:
        e0 = float(eos.e(r0, P0))
    finally:
        _guard["on"] = False
    branch = "%s,m=%d,P0%s0" % (name, m, "!=" if P0 else "=")
    det = dict(rho=rho, P=P, e=e, D=Dn, iterations=its, reference=[rl, pl, el, D], guess=guess)
    ctx.observe("newton.jump", p["resid"], Dn > 0, branch="D>0 " + branch, measure=Dn, detail=det)
    terms = {
        "mass": [rho, -r0 * (1 - u0 / Dn) ** (m + 1)],
        "momentum": [P, -P0, rho * u0 * Dn],
        "energy": [e, -e0, -0.5 * u0 ** 2, u0 * P0 / (rho * Dn)],
    }
    for k, tt in terms.items():
        sc = sum(abs(v) for v in tt)
        r = abs(sum(tt)) / sc
        tol = 1e-6 + 10 * tolN / sc
        ctx.observe("newton.jump", p["resid"], r <= tol, branch=k + " " + branch, measure=r, tol=tol,
                    detail=det)


UNITS = [
    Unit("eos", gen_eos, run_eos, quick=600, thorough=12000, min_nontrivial=100),
    Unit("resid", gen_resid, run_resid, quick=480, thorough=9600, min_nontrivial=100),
    Unit("newton", gen_newton, run_newton, quick=480, thorough=9600, min_nontrivial=50),
]

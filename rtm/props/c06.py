"""C06 - a value depends only on (parameters, point, time), not on history or batch.

  hist.repeat   offline checker over a recorded call history: within one interpreter, every call event with the same
                (class, constructor arguments, per-instance configuration, points, t) - at any position of a long
                mixed history, on the same or on an equal instance - must carry the same bit-exact result digest
  hist.fresh    a sample of events of each history is re-executed FIRST in a fresh interpreter (one subprocess per
                event: build, one call, digest) and compared bit for bit with every in-history occurrence
  hist.reuse    every catalogue class: one instance called at (x1,t1), (x2,t2), (x1,t1) - first and third result bit-equal, and
                the second bit-equal to the first call of a fresh, identically constructed instance (state kept on the
                instance between calls: cached radii, per-call attributes, warm starts)
  hist.shared   black-box Noh wrappers: the caller's initial-condition dictionary passed to two solvers, or the
                constructors' default dictionary edited through another instance - the first solver's
                values must be those it returns when it is alone in the interpreter
  batch         the value at a point is unchanged (1e-10) by permutation, subsets, supersets and duplicates of the
                other points of the request; grid-dependent solvers (Sedov, Mader) are compared on the same grid
                and, where the grid changes with the request, within their documented resolution
Histories mix constructors and calls of the solvers that keep state outside the instance (Guderley, RMTV, Su-Olson,
radiative shocks: module globals; black-box Noh: class-level solver; Blake: class dictionary; Riemann/Sedov wrappers:
per-call attributes) with cheap solvers in between, in hostile orders (same class alternating between two parameter
sets, construct-all-then-call forwards and backwards, configuration calls on unrelated instances).
"""
import json
import math
import os
import subprocess
import sys

import numpy as np

from ..core import Unit, Skip, SolverRaised, logu, uni, choice, jsonable, VERIF
from .. import catalogue as C
from .. import specs as S

RULE = ("seeded random histories of 20-60 constructor/call/configuration operations over 5-9 solver instances drawn from "
        "16 solver families (always including two parameter sets of one global-using class - three times out of four differing "
        "in exactly one constructor argument -, single-argument variants of other instances and an exact duplicate "
        "instance); per history 3 events replayed in fresh interpreters.  distinct = (monitor, class, pattern, history); "
        "non-trivial = the compared results contain non-zero values.")
ASSUME = ["bit-exact comparison (no tolerance) for history independence: there is no legitimate reason for different bits",
          "batch independence to 1e-10 (iterative point solvers warm-start from the previous point)",
          "documented read-only attributes are not mutated by the workload"]

POOL = [  # (catalogue entry, weight, fixed kwargs override or None)
    ("Guderley", 3, None), ("Rmtv", 2, None), ("SuOlson", 2, None), ("nED_Solver", 3, None), ("ED_Solver", 1, None),
    ("NohBlackBoxEos", 4, None), ("Blake", 2, None), ("IGEOS_Solver", 3, None), ("GenEOS_Solver", 0.3, None), ("Sedov", 2, None),
    ("Mader", 2, None), ("SteadyDetonationReactionZone", 2, None), ("EPpiston", 2, None), ("Rod1D", 1, None), ("Noh", 1, None),
    ("Cog13", 1, None), ("Kenamond3", 1, None), ("IGEOS_Solver2D", 1, None), ("EscapeOfHEProducts", 2, None), ("Hutchens1", 1, None),
]
GLOBAL_USERS = ["Guderley", "Rmtv", "SuOlson", "nED_Solver", "NohBlackBoxEos", "Blake", "EscapeOfHEProducts"]


def gen_spec(ctx, rng, ent):
    e = C.CAT[ent]
    path = e["path"]
    geom = choice(rng, e["geoms"]) if e["geoms"] else None
    if ent == "NohBlackBoxEos":
        kw = C.gen_bbnoh(rng, geom)
        from .c16 import make_eos, ref_root
        eos = make_eos(kw["eos"], kw["consts"])
        root = ref_root(eos, dict(kw["ic"]))
        tune = []
        if root is not None:
            rl, pl, el, D = root
            tune.append(("guess", [1.05 * rl, 0.95 * el, 1.05 * D]))
        if rng.random() < 0.5:
            tune.append(("tol", float(choice(rng, [1e-8, 1e-10, 1e-12]))))
        wrap = ["nohblackboxeos.blackboxnoh:NohBlackBoxEos", ["nohblackboxeos.blackboxnoh:PlanarNohBlackBox", "nohblackboxeos.blackboxnoh:CylindricalNohBlackBox",
                                                                "nohblackboxeos.blackboxnoh:SphericalNohBlackBox"][geom - 1]][int(rng.integers(2))]
        return dict(kind="bbnoh", entry=ent, cls=wrap, eos=kw["eos"], consts=kw["consts"], ic=kw["ic"], tune=tune, geom=geom)
    if ent == "Blake":
        from .c15 import material, NAMES, PAIRS
        m = material(logu(rng, 1e9, 1e11), uni(rng, 0.05, 0.45))
        a, b = PAIRS[int(rng.integers(15))]
        kw = {NAMES[a]: m[NAMES[a]], NAMES[b]: m[NAMES[b]], "ref_density": logu(rng, 1000, 10000), "cavity_radius": logu(rng, 0.03, 3),
              "pressure_scale": m["bulk_mod"] * logu(rng, 1e-5, 1e-2)}
    elif ent == "ED_Solver":
        kw = dict(M0=1.05)
    elif ent == "nED_Solver":
        kw = dict(M0=float(choice(rng, [1.05, 1.2, 1.4])), problem=choice(rng, ["nED", "LM_nED", "FLD_LP", "FLD_1", "FLD_2"]))
        if rng.random() < 0.4:
            kw["gamma"] = 1.4
    elif ent == "Guderley":
        kw = dict(gamma=float(choice(rng, [2.0, 3.0])), rho0=logu(rng, 0.1, 10))
    else:
        kw = e["gen"](rng, geom)
    if geom is not None and "geometry" in C.load(path).parameters:
        kw["geometry"] = geom
    return dict(kind="cat", entry=ent, cls=path, kwargs=jsonable(kw), geom=geom)


# single-parameter variants: "the same class, every constructor argument equal but one" is the most hostile neighbour for
# anything keyed, cached or kept at module/class level on a subset of the parameters.  Values listed are alternatives the
# solver accepts (history independence does not need a physically consistent set, only a deterministic function).
VARY = {
    "Rmtv": [("gamma", [1.2, 1.3, 1.4]), ("bigamma", [0.8, 1.2]), ("chi0", [0.5, 2.0]), ("aval", [-1.5, -2.5]), ("bval", [6.0, 7.0]),
             ("xif", [1.8, 2.2]), ("xis", [0.9, 1.1]), ("g0", [0.5, 2.0]), ("rf", "x"), ("beta0", "x")],
    "SuOlson": [("trad_bc_ev", "x"), ("opac", "x"), ("alpha", "x")],
    "Guderley": [("gamma", [2.0, 2.5, 3.0]), ("rho0", "x"), ("geometry", [2, 3])],
    "nED_Solver": [("M0", [1.05, 1.2, 1.4, 2.0]), ("gamma", [1.4, 1.5]), ("Tref", [50.0, 200.0]), ("Cv", "x"), ("sigA", "x"), ("rho0", "x"),
                   ("problem", ["nED", "LM_nED", "FLD_LP", "FLD_1", "FLD_2"]), ("epsilon", [0.5, 2.0])],
    "ED_Solver": [("M0", [1.05, 1.1]), ("gamma", [1.4, 1.5]), ("Tref", [50.0, 200.0]), ("Cv", "x"), ("sigA", "x"), ("rho0", "x")],
}


def variant(rng, spec, pick=None):
    """a copy of `spec` that differs in exactly one constructor argument (None if the specification has nothing to vary)"""
    v = json.loads(json.dumps(spec))
    if spec["kind"] == "bbnoh":
        which = int(rng.integers(4)) if pick is None else pick % 4
        if which == 0:
            v["ic"]["velocity"] = spec["ic"]["velocity"] * 1.1
        elif which == 1:
            v["ic"]["density"] = spec["ic"]["density"] * 1.1
        elif which == 2 and spec["consts"]:
            k = sorted(spec["consts"])[int(rng.integers(len(spec["consts"])))]
            if not isinstance(spec["consts"][k], (int, float)) or isinstance(spec["consts"][k], bool):
                return None
            v["consts"][k] = spec["consts"][k] * 1.05
        else:
            v["tune"] = list(spec.get("tune", [])) + [["tol", 1e-9]]
        v["tune"] = [t for t in v.get("tune", []) if t[0] != "guess"]     # the guess belonged to the other problem
        return v
    kw = v["kwargs"]
    table = VARY.get(spec["entry"])
    if table is None:
        cand = [(k, "x") for k, x in sorted(kw.items()) if isinstance(x, float) and x != 0.0]
        if spec.get("geom") is not None and "geometry" in kw and len(C.CAT[spec["entry"]]["geoms"] or []) > 1:
            cand.append(("geometry", list(C.CAT[spec["entry"]]["geoms"])))
        if not cand:
            return None
        table = cand
    k, alt = table[int(rng.integers(len(table))) if pick is None else pick % len(table)]
    cur = kw.get(k, getattr(C.load(spec["cls"]), k, None))
    if alt == "x":
        if not isinstance(cur, (int, float)):
            return None
        kw[k] = float(cur) * float(choice(rng, [0.8, 0.9, 1.1, 1.25]))
    else:
        others = [a for a in alt if a != cur]
        if not others:
            return None
        kw[k] = others[int(rng.integers(len(others)))]
        if k == "geometry":
            v["geom"] = kw[k]
    v["varied"] = k
    return v


def gen_sig(ctx, rng, spec, s):
    e = C.CAT[spec["entry"]]
    kw = spec.get("kwargs") or dict(ic=spec.get("ic"))
    full = dict(kw)
    for k in getattr(s, "parameters", {}):
        if k not in full and hasattr(s, k):
            full[k] = getattr(s, k)
    n = 5 if e["cost"] >= 0.2 else 9
    pts, t = e["domain"](rng, s, full, spec.get("geom"), n)
    return dict(points=np.asarray(pts, float).tolist(), t=float(t))


def gen_hist(rng, i, tier):
    # the global-using class of the history and the argument in which its second parameter set differs are enumerated,
    # not drawn: every (class, argument) pair of VARY is reached within 6 x 10 histories
    return dict(seed=int(rng.integers(2 ** 31)), pattern=["interleave", "alternate-AB", "construct-first-forward-backward", "interleave"][(i // 6) % 4],
                first=GLOBAL_USERS[i % len(GLOBAL_USERS)], vary=i // len(GLOBAL_USERS))


def fresh(spec, sig, timeout=600):
    env = dict(os.environ)
    p = subprocess.run([sys.executable, "-m", "rtm.fresh"], input=json.dumps(dict(spec=spec, sig=sig)), capture_output=True, text=True,
                       cwd=VERIF, env=env, timeout=timeout)
    if p.returncode != 0 or not p.stdout.strip():
        return dict(ok=False, error="fresh interpreter failed: rc=%s %s" % (p.returncode, p.stderr[-300:]))
    return json.loads(p.stdout)


def worst_diff(a, b):
    w, wf = 0.0, None
    for f in a:
        if f not in b:
            continue
        x = np.array([np.nan if v is None else v for v in a[f]], float)
        y = np.array([np.nan if v is None else v for v in b[f]], float)
        if x.shape != y.shape:
            return float("inf"), f
        sc = np.maximum(np.abs(x), np.abs(y))
        d = np.abs(x - y) / np.where(sc > 0, sc, 1.0)
        d = np.where(np.isnan(x) & np.isnan(y), 0.0, d)
        d = np.where(np.isnan(d), np.inf, d)
        if d.size and d.max() > w:
            w, wf = float(d.max()), f
    return w, wf


def run_hist(ctx, p):
    rng = np.random.default_rng(p["seed"])
    ents = [e for e, w, _ in POOL]
    wts = np.array([w for e, w, _ in POOL], float)
    wts /= wts.sum()
    k = int(rng.integers(5, 10))
    chosen = [p.get("first") or GLOBAL_USERS[int(rng.integers(len(GLOBAL_USERS)))]]
    chosen.append(chosen[0])                          # a second parameter set of the same global-using class
    while len(chosen) < k:
        chosen.append(ents[int(rng.choice(len(ents), p=wts))])
    specs_ = []
    for j, ent in enumerate(chosen):
        if j == 1 and (p.get("vary", 0) < 12 or rng.random() < 0.7):
            v = variant(rng, specs_[0], p.get("vary"))  # ... differing from the first in exactly one argument
            if v is not None:
                specs_.append(v)
                ctx.count("single_parameter_variants:" + ent)
                continue
        specs_.append(gen_spec(ctx, rng, ent))
        if j >= 2 and rng.random() < 0.3:
            v = variant(rng, specs_[-1])
            if v is not None:
                specs_.append(v)
                ctx.count("single_parameter_variants:" + ent)
    specs_.append(json.loads(json.dumps(specs_[0])))   # exact duplicate of the first instance's specification
    inst, sigs = {}, {}

    def get(i):
        if i not in inst:
            try:
                inst[i] = S.build(specs_[i])
            except Exception as ex:
                ctx.count("history_build_raised:%s:%s" % (specs_[i]["entry"], type(ex).__name__))
                inst[i] = None
                return None
            try:
                sigs[i] = [gen_sig(ctx, rng, specs_[i], inst[i]) for _ in range(2)]
            except Exception as ex:
                ctx.count("history_sig_raised:%s:%s" % (specs_[i]["entry"], type(ex).__name__))
                inst[i] = None
        return inst[i]
    n = len(specs_)
    # duplicate instance uses the first instance's signatures
    order = []
    L = int(rng.integers(20, 61)) if not ctx.thorough() else int(rng.integers(40, 121))
    if p["pattern"] == "interleave":
        order = [(int(rng.integers(n)), int(rng.integers(2))) for _ in range(L)]
    elif p["pattern"] == "construct-first-forward-backward":
        for i in range(n):
            get(i)
        fw = [(i, j) for i in range(n) for j in range(2)]
        order = fw + fw[::-1]
    else:
        order = [(0, 0), (1, 0)] * 4 + [(int(rng.integers(n)), int(rng.integers(2))) for _ in range(L // 2)] + [(1, 1), (0, 1)] * 3
    events = []
    sacrificial = None
    for pos, (i, j) in enumerate(order):
        s = get(i)
        if s is None:
            continue
        if i == n - 1 and 0 in sigs:
            sigs[i] = sigs[0]
        # configuration calls on an unrelated black-box Noh instance (must not influence anybody else)
        if rng.random() < 0.15:
            try:
                if sacrificial is None:
                    from exactpack.solvers.nohblackboxeos.blackboxnoh import NohBlackBoxEos
                    from .c16 import make_eos
                    sacrificial = NohBlackBoxEos(make_eos("ideal", dict(gamma=1.4)))
                sacrificial.set_new_solver_tolerance(float(choice(rng, [1e-2, 1e-4, 1e-13])))
                sacrificial.set_new_solver_initial_guess([5.0, 0.4, 0.3])
                ctx.count("unrelated_configuration_ops")
            except Exception:
                pass
        sig = sigs[i][j]
        try:
            sol = S.call(s, sig)
        except Exception as ex:
            ctx.count("history_call_raised:%s:%s" % (specs_[i]["entry"], type(ex).__name__))
            continue
        key = json.dumps([{k: v for k, v in specs_[i].items() if k != "varied"}, sig], sort_keys=True)
        events.append(dict(pos=pos, inst=i, entry=specs_[i]["entry"], key=key, digest=S.digest(sol), values=S.values(sol)))
    ctx.count("history_events", len(events))
    if len(events) < 5:
        raise Skip("history_too_short")
    # ---- offline checker 1: repeats inside the history -----------------------------------------------------------------
    groups = {}
    for ev in events:
        groups.setdefault(ev["key"], []).append(ev)
    for key, evs in groups.items():
        if len(evs) < 2:
            continue
        ds = set(e["digest"] for e in evs)
        ok = len(ds) == 1
        det = None
        if not ok:
            a = evs[0]
            b = next(e for e in evs if e["digest"] != a["digest"])
            w, wf = worst_diff(a["values"], b["values"])
            det = dict(entry=a["entry"], positions=[e["pos"] for e in evs], instances=[e["inst"] for e in evs], worst_rel_diff=w, field=wf,
                       spec=json.loads(key)[0], sig=json.loads(key)[1], pattern=p["pattern"])
        nz = any(any(v not in (0.0, None) for v in vals) for vals in evs[0]["values"].values())
        ctx.observe("hist.repeat", evs[0]["entry"], ok, branch=p["pattern"], measure=det["worst_rel_diff"] if det else 0.0, detail=det, nontrivial=nz,
                    cell=(p["seed"], key[:80]))
    # ---- offline checker 2: fresh interpreter ---------------------------------------------------------------------------
    keys = sorted(groups)
    rng.shuffle(keys)
    # the two parameter sets of the global-using class are always among the replayed events (one event each, the one
    # that occurs latest in the history), the rest is a random sample
    first = []
    for want in (0, 1):
        cand = [k for k in keys if any(e["inst"] == want for e in groups[k])]
        if cand:
            first.append(max(cand, key=lambda k: max(e["pos"] for e in groups[k])))
    keys = first + [k for k in keys if k not in first]
    nfresh = 3 if not ctx.thorough() else 6
    for key in keys[:nfresh]:
        spec, sig = json.loads(key)
        try:
            ref = fresh(spec, sig)
        except subprocess.TimeoutExpired:
            ctx.count("fresh_timeout")
            continue
        if not ref.get("ok"):
            ctx.count("fresh_failed:" + str(ref.get("error"))[:60])
            continue
        evs = groups[key]
        bad = [e for e in evs if e["digest"] != ref["digest"]]
        det = None
        if bad:
            w, wf = worst_diff(ref["values"], bad[0]["values"])
            det = dict(entry=evs[0]["entry"], position=bad[0]["pos"], history_length=len(events), worst_rel_diff=w, field=wf, spec=spec, sig=sig,
                       pattern=p["pattern"], preceding=[e["entry"] for e in events if e["pos"] < bad[0]["pos"]][-6:])
        nz = any(any(v not in (0.0, None) for v in vals) for vals in ref["values"].values())
        ctx.observe("hist.fresh", evs[0]["entry"], not bad, branch=p["pattern"], measure=det["worst_rel_diff"] if det else 0.0, detail=det, nontrivial=nz,
                    cell=(p["seed"], key[:80]))


# ---- batch independence ------------------------------------------------------------------------------------------------------------
BATCH = ["Noh", "Noh2", "Cog1", "Cog13", "Cog20", "IGEOS_Solver", "GenEOS_Solver", "EscapeOfHEProducts", "SteadyDetonationReactionZone",
         "EPpiston", "NohBlackBoxEos", "Rmtv", "SuOlson", "Guderley", "Sedov", "Mader", "Blake", "Rod1D", "Hutchens1", "Kenamond1", "Kenamond2", "Kenamond3",
         "CylindricalExpansion", "IGEOS_Solver2D", "nED_Solver", "Rectangle"]


def gen_batch(rng, i, tier):
    return dict(entry=BATCH[i % len(BATCH)], seed=int(rng.integers(2 ** 31)))


def sub(e, pts, idx):
    a = np.asarray(pts, float)
    return a[:, idx] if e["layout"] == "comp2" else a[idx]


def run_batch(ctx, p):
    ent = p["entry"]
    e = C.CAT[ent]
    thin = e["cost"] >= 1 and p["seed"] % 4 and not ctx.thorough()
    cls = C.load(e["path"])
    rng = np.random.default_rng(p["seed"])
    n = 6 if e["cost"] >= 0.2 else 14
    if thin:
        n = 3              # a costly class outside its full turn: three points, then the same three with two of them repeated
    d = C.draw(ctx, cls, ent, rng, n=n)
    if d is None:
        raise Skip("no_admissible_draw")
    s, pts, t, A = d["solver"], np.asarray(d["points"], float), d["t"], d["sol"]
    m = len(A)
    name = cls.__name__
    fields = [f for f in A.dtype.names if A[f].dtype.kind == "f"]

    def compare(label, idx_in_variant, idx_in_base, B, tol=1e-10):
        worst, wf = 0.0, None
        for f in fields:
            a = np.asarray(A[f], float)[idx_in_base]
            b = np.asarray(B[f], float)[idx_in_variant]
            sc = np.maximum(np.abs(a), np.abs(b))
            dd = np.abs(a - b) / np.where(sc > 0, sc, 1.0)
            dd = np.where(np.isnan(a) & np.isnan(b), 0.0, dd)
            dd = np.where(np.isnan(dd), np.inf, dd)
            if dd.size and dd.max() > worst:
                worst, wf = float(dd.max()), f
        ctx.observe("batch", name, worst <= tol, branch=label, measure=worst, tol=tol, detail=dict(field=wf, t=t, n=m,
                    params={k: v for k, v in d["passed"].items() if isinstance(v, (int, float, str))}))
    if thin:
        if ent in ("Mader", "Sedov") or e["layout"] == "comp2" and False:
            raise Skip("costly_class_thinned")
        idx = np.array([0, 1, 2, 0, 1][: m + 2]) if m >= 3 else np.array([0, 0])
        try:
            B = ctx.call(s, sub(e, pts, idx), t)
            compare("duplicates (short request)", np.arange(len(idx)), idx, B)
        except SolverRaised:
            ctx.count("short_duplicates_request_raised:" + name)
        return
    if ent == "Mader":
        # documented grid dependence (dx from first/last point and N): the same grid must give the same cell averages
        B = ctx.call(s, pts.copy(), t)
        compare("same grid repeated", np.arange(m), np.arange(m), B, tol=0.0)
        return
    keepmax = ent == "Sedov"      # internal grid = linspace(0, max(r), 3001): keep max(r) in every variant
    base_idx = np.arange(m)
    # permutation
    perm = rng.permutation(m)
    B = ctx.call(s, sub(e, pts, perm), t)
    compare("permutation", np.arange(m), perm, B)
    # subset (every other point; Sedov keeps the largest radius)
    idx = base_idx[::2]
    if keepmax and (m - 1) not in idx:
        idx = np.append(idx, m - 1)
    B = ctx.call(s, sub(e, pts, idx), t)
    compare("subset", np.arange(len(idx)), idx, B)
    # duplicates
    idx = np.concatenate([base_idx, base_idx[:3], base_idx[-2:]])
    B = ctx.call(s, sub(e, pts, idx), t)
    compare("duplicates", np.arange(len(idx)), idx, B)
    # superset: additional in-domain points of a second draw from the same domain sampler
    try:
        extra, _ = e["domain"](rng, s, d["full"], d["geom"], n)
        extra = np.asarray(extra, float)
        if keepmax:
            extra = extra[extra < pts.max()]
        if e["layout"] == "comp2":
            allp = np.concatenate([pts, extra], axis=1)
        else:
            allp = np.concatenate([pts, extra], axis=0)
        if ent in ("EPpiston",):
            raise Skip("domain depends on max(x)")
        B = ctx.call(s, allp, t)
        compare("superset", np.arange(m), np.arange(m), B)
    except (SolverRaised, Skip):
        ctx.count("superset_not_applicable:" + name)
    # every point alone (series solvers, root finders with warm starts: the one-point request is the extreme subset)
    if e["cost"] < 0.2 and ent not in ("Mader", "Sedov") and e["minpts"] <= 1:
        worst, wf, wi = 0.0, None, None
        for j in list(range(min(m, 5))):
            try:
                Bj = ctx.call(s, sub(e, pts, np.array([j])), t)
            except SolverRaised:
                ctx.count("single_point_request_raised:" + name)
                continue
            for f in fields:
                x, y = float(np.asarray(A[f], float)[j]), float(np.asarray(Bj[f], float)[0])
                if x == y or (math.isnan(x) and math.isnan(y)):
                    continue
                sc = max(abs(x), abs(y))
                dd = abs(x - y) / sc if sc > 0 and math.isfinite(sc) else float("inf")
                if not dd <= worst:
                    worst, wf, wi = (dd if dd == dd else float("inf")), f, j
        ctx.observe("batch", name, worst <= 1e-10, branch="every point alone", measure=worst, tol=1e-10, detail=dict(field=wf, index=wi, t=t, n=m,
                    params={k: v for k, v in d["passed"].items() if isinstance(v, (int, float, str))}))
    if ent == "Sedov":
        # the grid changes with max(r): values may move only within the documented resolution (max(r)/3000 x slope)
        r2 = float(s.r2)
        base = np.array([0.55, 0.7, 0.8, 0.9]) * r2
        a = ctx.call(s, np.append(base, 0.95 * r2), t)
        b = ctx.call(s, np.append(base, 1.7 * r2), t)
        worst = 0.0
        for f in ("density", "velocity", "pressure"):
            x, y = np.asarray(a[f], float)[:4], np.asarray(b[f], float)[:4]
            worst = max(worst, float(np.max(np.abs(x - y) / np.maximum(np.abs(x), np.abs(y)))))
        ctx.observe("batch", name, worst <= 2e-2, branch="different max(r): within grid resolution", measure=worst, tol=2e-2,
                    detail=dict(params=d["passed"], t=t))


# ---- one instance, several times: a later call must not depend on the earlier calls of the same object ---------------------------
def reuse_entries():
    return sorted(k for k, e in C.CAT.items() if e["cost"] <= 5)


def gen_reuse(rng, i, tier):
    ents = reuse_entries()
    return dict(entry=ents[i % len(ents)], seed=int(rng.integers(2 ** 31)))


def run_reuse(ctx, p):
    ent = p["entry"]
    e = C.CAT[ent]
    if e["cost"] >= 1 and p["seed"] % 3 and not ctx.thorough():
        raise Skip("costly_class_thinned")
    cls = C.load(e["path"])
    name = cls.__name__
    n = 5 if e["cost"] >= 0.2 else 9
    d = C.draw(ctx, cls, ent, np.random.default_rng(p["seed"]), n=n)
    if d is None:
        raise Skip("no_admissible_draw")
    s, pts1, t1, A = d["solver"], np.asarray(d["points"], float), d["t"], d["sol"]
    rng2 = np.random.default_rng(p["seed"] + 1)
    pts2, t2 = None, None
    for _ in range(6):
        pts2, t2 = e["domain"](rng2, s, d["full"], d["geom"], n)
        if t2 != t1:
            break
    pts2 = np.asarray(pts2, float)
    det = dict(t1=t1, t2=t2, params={k: v for k, v in d["passed"].items() if isinstance(v, (int, float, str))}, geometry=d["geom"])
    try:
        B = ctx.call(s, pts2.copy(), t2)
        A2 = ctx.call(s, pts1.copy(), t1)
    except SolverRaised:
        ctx.count("reuse_call_raised:" + name)
        raise Skip("second call raised")
    nz = any(np.any(np.asarray(A[f], float) != 0) for f in A.dtype.names if A[f].dtype.kind == "f")
    w, wf = worst_diff(S.values(A), S.values(A2))
    ctx.observe("hist.reuse", name, S.digest(A) == S.digest(A2), branch="call (x1,t1), (x2,t2), (x1,t1): first == third" + ("" if t2 != t1 else " [t2 == t1]"),
                measure=w, detail=dict(det, field=wf), nontrivial=nz)
    # a grid that differs from the first one by a few parts in a million (a moved mesh, a finite-difference stencil): judged
    # against a fresh, identically constructed instance below
    pts3 = pts1 * (1.0 + 3e-6) + 1e-9
    try:
        C3 = ctx.call(s, pts3.copy(), t1)
    except SolverRaised:
        C3 = None
    # the second call against the first call of a fresh, identically constructed instance
    try:
        if e["build"] is not None:
            s2, _, _, _ = C.instantiate(ctx, cls, ent, np.random.default_rng(0), geom=d["geom"], kwargs=d["passed"])
        else:
            s2, _, _, _ = C.instantiate(ctx, cls, ent, np.random.default_rng(0), geom=d["geom"], kwargs={k: v for k, v in d["passed"].items() if k != "geometry"})
        B2 = ctx.call(s2, pts2.copy(), t2)
    except SolverRaised:
        ctx.count("reuse_fresh_instance_raised:" + name)
        return
    w, wf = worst_diff(S.values(B), S.values(B2))
    nz = any(np.any(np.asarray(B[f], float) != 0) for f in B.dtype.names if B[f].dtype.kind == "f")
    ctx.observe("hist.reuse", name, S.digest(B) == S.digest(B2), branch="second call of a used instance == first call of a fresh one" + ("" if t2 != t1 else " [t2 == t1]"),
                measure=w, detail=dict(det, field=wf), nontrivial=nz)
    if C3 is not None and ent not in ("Mader", "Sedov"):
        try:
            if e["build"] is not None:
                s3, _, _, _ = C.instantiate(ctx, cls, ent, np.random.default_rng(0), geom=d["geom"], kwargs=d["passed"])
            else:
                s3, _, _, _ = C.instantiate(ctx, cls, ent, np.random.default_rng(0), geom=d["geom"], kwargs={k: v for k, v in d["passed"].items() if k != "geometry"})
            C3f = ctx.call(s3, pts3.copy(), t1)
        except SolverRaised:
            ctx.count("reuse_fresh_instance_raised:" + name)
            return
        w, wf = worst_diff(S.values(C3), S.values(C3f))
        ctx.observe("hist.reuse", name, S.digest(C3) == S.digest(C3f), branch="a grid 3e-6 away from the first one on a used instance == on a fresh one", measure=w,
                    detail=dict(det, field=wf), nontrivial=nz)


# ---- arguments shared between constructions: the caller's dictionary, the constructors' default dictionary ----------------------
def gen_shared(rng, i, tier):
    # (a caller who edits his own dictionary after handing it over is not covered by the property: not a case)
    return dict(kind=["caller's dictionary passed to two wrappers", "default dictionary edited through another instance"][i % 2],
                gamma=uni(rng, 1.2, 2.5), rho0=logu(rng, 0.3, 3), u0=-logu(rng, 0.3, 3), geoms=[int(rng.integers(3)), int(rng.integers(3))], t=uni(rng, 0.2, 1.0))


def run_shared(ctx, p):
    from exactpack.solvers.nohblackboxeos import PlanarNohBlackBox, CylindricalNohBlackBox, SphericalNohBlackBox
    from .c16 import make_eos
    W = [PlanarNohBlackBox, CylindricalNohBlackBox, SphericalNohBlackBox]
    g, t = p["gamma"], p["t"]
    ga, gb = p["geoms"]
    if p["kind"].startswith("caller's dictionary passed") and ga == gb:
        gb = (ga + 1) % 3
    r = np.array([0.01, 0.05, 0.2, 1.0, 3.0]) * abs(p["u0"]) * t

    def guess(s, m, rho0, u0):
        rl = rho0 * ((g + 1) / (g - 1)) ** (m + 1)
        s.set_new_solver_initial_guess([1.05 * rl, 0.95 * 0.5 * u0 * u0, 1.05 * abs(u0) * (g - 1) / 2])

    def alone(default):
        a = ctx.quiet(W[ga], make_eos("ideal", dict(gamma=g))) if default else ctx.quiet(W[ga], make_eos("ideal", dict(gamma=g)), dict(density=p["rho0"], velocity=p["u0"], pressure=0.0))
        guess(a, ga, 1.0 if default else p["rho0"], -1.0 if default else p["u0"])
        return ctx.call(a, r, t)
    try:
        if p["kind"].startswith("caller's dictionary passed"):
            ic = dict(density=p["rho0"], velocity=p["u0"], pressure=0.0)
            a = ctx.quiet(W[ga], make_eos("ideal", dict(gamma=g)), ic)
            guess(a, ga, p["rho0"], p["u0"])
            b = ctx.quiet(W[gb], make_eos("ideal", dict(gamma=g)), ic)          # the same dictionary object, another geometry
            guess(b, gb, p["rho0"], p["u0"])
            A = ctx.call(a, r, t)
            ref = alone(False)
        elif p["kind"].startswith("default dictionary"):
            a = ctx.quiet(W[ga], make_eos("ideal", dict(gamma=g)))
            guess(a, ga, 1.0, -1.0)
            b = ctx.quiet(W[ga], make_eos("ideal", dict(gamma=g)))
            b.initial_conditions["density"] = 1.0 * p["rho0"] * 2.5                 # the other instance's problem is changed ...
            guess(b, ga, p["rho0"] * 2.5, -1.0)
            try:
                ctx.call(b, r, t)
            except SolverRaised:
                pass
            A = ctx.call(a, r, t)                                                   # ... this one's must not be
            ref = alone(True)
        else:
            ic = dict(density=p["rho0"], velocity=p["u0"], pressure=0.0)
            a = ctx.quiet(W[ga], make_eos("ideal", dict(gamma=g)), ic)
            guess(a, ga, p["rho0"], p["u0"])
            ic["density"] = p["rho0"] * 3.0                                         # the caller re-uses his dictionary for something else
            ic["velocity"] = p["u0"] * 0.5
            A = ctx.call(a, r, t)
            ref = alone(False)
    except SolverRaised:
        ctx.count("shared_argument_case_raised")
        raise Skip("solver raised")
    w, wf = worst_diff(S.values(ref), S.values(A))
    ctx.observe("hist.shared", W[ga].__name__, S.digest(ref) == S.digest(A), branch=p["kind"], measure=w,
                detail=dict(field=wf, gamma=g, rho0=p["rho0"], u0=p["u0"], geometries=[ga + 1, gb + 1], t=t, alone=S.values(ref).get("density"), in_company=S.values(A).get("density")))


# ---- one solver class, two equations of state: the general Riemann solver with the ideal-gas and the JWL closure -----------------
def gen_closure(rng, i, tier):
    from .. import riemann_common as RC
    nm = sorted(RC.JWL_SETS)[i % len(RC.JWL_SETS)]
    st = dict(RC.JWL_SETS[nm])
    if i >= 2 * len(RC.JWL_SETS):
        for k in ("rl", "pl", "rr", "pr"):
            st[k] *= uni(rng, 0.85, 1.2)
    return dict(set=nm, st=st, order=["ideal gas first, then JWL", "JWL first, then ideal gas"][(i // len(RC.JWL_SETS)) % 2], t=uni(rng, 5, 15))


def run_closure(ctx, p):
    st = p["st"]
    base = {k: float(st[k]) for k in ("rl", "ul", "pl", "gl", "rr", "ur", "pr", "gr")}
    base.update(xmin=0.0, xd0=50.0, xmax=100.0, t=float(p["t"]))
    jwl = dict(base, problem="JWL", **{k: float(st[k]) for k in ("A", "B", "R1", "R2", "r0", "e0")})
    specs = dict(ideal=dict(kind="cat", entry="GenEOS_Solver", cls="riemann.ep_riemann:GenEOS_Solver", kwargs=base, geom=None),
                 JWL=dict(kind="cat", entry="GenEOS_Solver", cls="riemann.ep_riemann:GenEOS_Solver", kwargs=jwl, geom=None))
    sig = dict(points=np.linspace(5.0, 95.0, 19).tolist(), t=float(p["t"]))
    first, second = ("ideal", "JWL") if p["order"].startswith("ideal") else ("JWL", "ideal")
    try:
        S.call(S.build(specs[first]), sig)
        B = S.call(S.build(specs[second]), sig)
    except Exception as ex:
        ctx.count("closure_case_raised:" + type(ex).__name__)
        raise Skip("solver raised")
    ref = fresh(specs[second], sig)
    if not ref.get("ok"):
        ctx.count("fresh_failed:" + str(ref.get("error"))[:60])
        raise Skip("fresh interpreter failed")
    w, wf = worst_diff(ref["values"], S.values(B))
    ctx.observe("hist.fresh", "GenEOS_Solver", ref["digest"] == S.digest(B), branch="same states, other closure solved before: " + p["order"], measure=w,
                detail=dict(field=wf, set=p["set"], t=p["t"]), cell=(p["set"], p["order"], round(p["t"], 6)))


# ---- series solvers at the nodes of their own modes: rational fractions of the length, early times ---------------------------------
def gen_nodes(rng, i, tier):
    ent = ["Rod1D", "PlanarSandwich", "PlanarSandwichHot", "PlanarSandwichHalf"][i % 4]
    kw = C.CAT[ent]["gen"](rng, None)
    return dict(entry=ent, kw=kw, tf=logu(rng, 1e-4, 5e-2))


def run_nodes(ctx, p):
    ent, kw = p["entry"], p["kw"]
    cls = C.load(C.CAT[ent]["path"])
    s = ctx.make(cls, **kw)
    L, kap = float(kw["L"]), float(kw["kappa"])
    fr = np.array([1 / 2, 1 / 3, 2 / 3, 1 / 4, 3 / 4, 0.4, 0.8, 1 / 5, 1 / 6, 1 / 8])
    t = p["tf"] * L * L / kap
    A = np.asarray(ctx.call(s, fr * L, t)["temperature"], float)
    worst, wj = 0.0, None
    sc = max(float(np.max(np.abs(A))), 1e-300)
    for j in range(len(fr)):
        for req in (np.array([fr[j] * L]), np.array([fr[j] * L, fr[(j + 3) % len(fr)] * L])):
            v = float(np.asarray(ctx.call(s, req, t)["temperature"], float)[0])
            dd = abs(v - A[j]) / sc
            if not dd <= worst:
                worst, wj = (dd if dd == dd else float("inf")), j
    ctx.observe("batch", cls.__name__, worst <= 1e-10, branch="mode nodes (rational fractions of L) alone and in pairs, early time", measure=worst, tol=1e-10,
                detail=dict(fraction=None if wj is None else float(fr[wj]), t=t, tf=p["tf"], params={k: v for k, v in kw.items() if isinstance(v, (int, float, str))}))


def reach(tot, tier):
    out = []
    n = sum(st["evals"] for k, st in tot["stats"].items() if k.startswith("hist.fresh|"))
    if n < (40 if tier == "quick" else 400):
        out.append("only %d fresh-interpreter comparisons" % n)
    seen = set(k.split("|")[1] for k in tot["stats"] if k.startswith("hist."))
    for c in GLOBAL_USERS:
        if c not in seen:
            out.append("no history event judged for %s" % c)
    return out


UNITS = [
    Unit("history", gen_hist, run_hist, quick=96, thorough=480, min_nontrivial=150),
    Unit("shared", gen_shared, run_shared, quick=24, thorough=240, min_nontrivial=16),
    Unit("reuse", gen_reuse, run_reuse, quick=60 * 4, thorough=60 * 20, min_nontrivial=120),
    Unit("closure", gen_closure, run_closure, quick=4, thorough=24, min_nontrivial=3),
    Unit("nodes", gen_nodes, run_nodes, quick=48, thorough=480, min_nontrivial=40),
    Unit("batch", gen_batch, run_batch, quick=len(BATCH) * 4, thorough=len(BATCH) * 20, min_nontrivial=200),
]

"""C03 - thermodynamic fields returned together satisfy the problem's equation of state.

One online monitor, attached to the public call boundary with an icontract postcondition
(rtm.boundary), evaluates on *every* call the workload makes the EOS relation that the class
declares (table `relations` below, written from the docstrings).  The workload is the solver
catalogue (every thermodynamic class and wrapper, random admissible non-default parameters, all
geometries) plus dedicated sweeps: unequal-gamma and JWL Riemann problems, piston regions,
black-box Noh with each EOS, radiative-shock profiles evaluated on their own nodes.
"""
import math

import numpy as np

from ..core import Unit, Skip, SolverRaised, logu, uni, choice
from .. import boundary
from .. import catalogue as C
from .. import riemann_common as RC

RULE = ("every thermodynamic solver class discovered under exactpack.solvers (general classes and "
        "geometry wrappers) x random admissible parameters x in-domain points; Riemann problems with "
        "unequal gammas in all patterns and JWL sets.  The monitor fires on every public call. "
        "distinct = (relation, class, branch, case); non-trivial = the related fields are non-zero.")
ASSUME = ["EOS relations as declared in the docstrings (table in rtm/props/c03.py)",
          "points with rho = 0 (documented vacuum) and points within two internal cells of a wave of an "
          "interpolating solver are skipped and counted"]

FORCED_GAMMA = {"Cog3": lambda k: (k - 1.0) / (k + 1.0), "Cog5": lambda k: 0.5,
                "Cog6": lambda k: (k + 3.0) / (k + 1.0), "Cog7": lambda k: (k + 3.0) / (k + 1.0),
                "Cog18": lambda k: (k + 3.0) / (k + 1.0), "Cog21": lambda k: 5.0}


def family(s):
    for c in type(s).__mro__:
        n = c.__name__
        m = c.__module__
        if m.startswith("exactpack.solvers.cog.") and n.startswith("Cog"):
            return n
        if n in ("Noh", "Noh2", "Sedov", "Guderley", "EscapeOfHEProducts", "Mader", "SteadyDetonationReactionZone",
                 "EPpiston", "NohBlackBoxEos", "Rmtv", "ED_Solver", "nED_Solver", "Sn_Solver", "ie_Solver"):
            return n
        if n in ("IGEOS_Solver", "GenEOS_Solver") and m.endswith("riemann.ep_riemann"):
            return n
    return None


def jwl_f(rho, g, s):
    G = g - 1.0
    R1r = s.R1 * s.r0 / rho
    R2r = s.R2 * s.r0 / rho
    return s.A * (1.0 - G / R1r) * np.exp(-R1r) + s.B * (1.0 - G / R2r) * np.exp(-R2r)


def rel(label, lhs, rhs, tol, mask=None, scale=None):
    return dict(label=label, lhs=np.asarray(lhs, dtype=float), rhs=np.asarray(rhs, dtype=float), tol=tol,
                mask=mask, scale=scale)


def relations(s, pts, t, sol):
    """list of relations the returned record must satisfy, for the class family of s"""
    fam = family(s)
    if fam is None:
        return None
    N = sol.dtype.names
    f = lambda n: np.asarray(sol[n], dtype=float)     # noqa: E731
    out = []
    if fam.startswith("Cog"):
        k = getattr(s, "geometry", 3) - 1.0
        g = FORCED_GAMMA[fam](k) if fam in FORCED_GAMMA else s.gamma
        G = s.Gamma
        out.append(rel("p=Gamma rho T", f("pressure"), G * f("density") * f("temperature"), 1e-12))
        out.append(rel("e=Gamma T/(gamma-1)", f("specific_internal_energy"), G * f("temperature") / (g - 1.0), 1e-12))
        out.append(rel("p=(gamma-1) rho e", f("pressure"), (g - 1.0) * f("density") * f("specific_internal_energy"), 1e-12))
    elif fam in ("Noh", "Noh2"):
        out.append(rel("p=(gamma-1) rho e", f("pressure"), (s.gamma - 1.0) * f("density") * f("specific_internal_energy"), 1e-12))
    elif fam in ("Sedov", "Guderley"):
        rho = f("density")
        m = rho > 0
        out.append(rel("p=(gamma-1) rho e", f("pressure"), (s.gamma - 1.0) * rho * f("specific_internal_energy"), 1e-12, m))
        out.append(rel("c^2=gamma p/rho", f("sound_speed") ** 2 * rho, s.gamma * f("pressure"), 1e-12, m))
    elif fam == "EscapeOfHEProducts":
        rho = f("density")
        m = rho > 0
        out.append(rel("p=(gamma-1) rho e", f("pressure"), (s.gamma - 1.0) * rho * f("specific_internal_energy"), 1e-12, m))
        out.append(rel("c^2=gamma p/rho", f("sound_speed") ** 2 * rho, s.gamma * f("pressure"), 1e-12,
                       m & (f("pressure") > 0)))
    elif fam in ("IGEOS_Solver", "GenEOS_Solver"):
        x = np.asarray(pts, dtype=float)
        V = np.asarray(s.Vregs, dtype=float)
        pat = RC.pattern_of(s.soln_type)
        ic = 1 if pat[0] == "S" else 2
        xc = s.xd0 + t * V[ic]
        left = x < xc
        g = np.where(left, s.gl, s.gr)
        rho = f("density")
        m = np.ones(len(x), dtype=bool)
        tol = 1e-12
        if fam == "GenEOS_Solver":
            h = (max(s.x) - min(s.x)) / 10000.0
            for v in V:
                m &= np.abs(x - (s.xd0 + t * v)) > 2.5 * h
            # p, rho and e are interpolated separately (linearly) from the fan tables to the internal grid
            # and from there to the user's points: the product relation then holds up to the bilinear
            # interpolation error |d rho| |d e| over the neighbouring internal cells (exact in constant
            # states).  Estimated from the solver's own grid arrays s.x, s.r, s.e.
            gx, gr_, ge = np.asarray(s.x, float), np.asarray(s.r, float), np.asarray(s.e, float)
            j = np.clip(np.searchsorted(gx, x), 3, len(gx) - 4)
            drho = np.maximum(np.abs(gr_[j + 3] - gr_[j - 3]), 0.0)
            de = np.maximum(np.abs(ge[j + 3] - ge[j - 3]), 0.0)
            # (factor 6 over +-3 cells: measured worst case 2.4 x the former 2 over +-2 cells, in the near-vacuum foot of a
            #  strong double rarefaction, thorough tier; a wrong gamma or a wrong field is an O(1) relative error)
            abs_slack = 6.0 * np.abs(g - 1.0) * drho * de
            tol = 1e-9
        else:
            m &= x != xc
        fj = jwl_f(rho, g, s) if "JWL" in str(s.problem) else 0.0
        sc = np.abs(f("pressure")) + np.abs(fj)
        if fam == "GenEOS_Solver":
            sc = sc + abs_slack / tol
        out.append(rel("e=(p-f_JWL(rho))/((gamma-1) rho)" if "JWL" in str(s.problem) else "p=(gamma-1) rho e",
                       f("specific_internal_energy") * (g - 1.0) * rho + fj, f("pressure"), tol, m, scale=sc))
    elif fam == "Mader":
        # cell averages of p and rho vs point value of c: agreement to second order in the cell size
        x = np.asarray(pts, dtype=float)
        n = len(x)
        dx = abs(x[-1] - x[0]) / max(n, 1)
        rho, p, c = f("density"), f("pressure"), f("sound_speed")
        xdet = f("xdet")
        y = np.maximum(np.abs(xdet), dx)
        tol = 4.0 * (dx / y) ** 2 + 1e-12
        # the cell that straddles the tail of the Taylor wave is a partial average (C17's subject)
        gam = s.gamma
        um = (gam - 1.0) * (s.d_cj / (gam + 1.0) - 2.0 * (gam * s.d_cj / (gam + 1.0)) / (gam - 1.0)) / (gam + 1.0)
        xp = 0.5 * (gam + 1.0) * t * (s.u_piston - um)
        m = (np.abs(xdet - xp) > 1.5 * dx) & (xdet > 0)
        out.append(rel("c^2=gamma p/rho (cell-average resolution)", c ** 2 * rho, gam * p, tol, m))
    elif fam == "SteadyDetonationReactionZone":
        rho, p, c = f("density"), f("pressure"), f("sound_speed")
        m = (p > 0)
        # c, p, rho are interpolated separately (linearly in position) from the solver's 201-point
        # Lagrangian table; at the table nodes the relation is exact, inside a table cell it holds up to
        # the bilinear interpolation error, which is large where the reaction ends (sqrt behaviour).
        # The bound is evaluated on the solver's own table (public run_tvec on the same 201 times).
        tab = s.run_tvec(np.linspace(0.0, t, 201))
        xn = np.asarray(tab["position"], float)[::-1]
        cn = np.asarray(tab["sound_speed"], float)[::-1]
        rn = np.asarray(tab["density"], float)[::-1]
        x = np.asarray(pts, dtype=float)
        j = np.clip(np.searchsorted(xn, x), 1, len(xn) - 1)
        dc2 = np.abs(cn[j] ** 2 - cn[j - 1] ** 2)
        dr = np.abs(rn[j] - rn[j - 1])
        dc = np.abs(cn[j] - cn[j - 1])
        slack = 0.5 * (dc2 * dr + np.maximum(rn[j], rn[j - 1]) * dc ** 2)
        out.append(rel("c^2=gamma p/rho (table resolution)", c ** 2 * rho, s.gamma * p, 1e-9, m,
                       scale=np.abs(s.gamma * p) + slack / 1e-9))
    elif fam == "EPpiston":
        rho, p, e = f("density"), f("pressure"), f("specific_internal_energy")
        eta = 1.0 - s.rho0 / rho
        Ph = s.rho0 * s.c0 ** 2 * eta / (1.0 - s.s0 * eta) ** 2
        Eh = eta * Ph / (2.0 * s.rho0)
        out.append(rel("Mie-Gruneisen p(rho,e)", p, Ph + s.gamma * rho * (e - Eh), 1e-9,
                       scale=np.abs(Ph) + np.abs(s.gamma * rho * e) + np.abs(s.gamma * rho * Eh) + np.abs(p)))
    elif fam == "NohBlackBoxEos":
        rho, p, e = f("density"), f("pressure"), f("specific_internal_energy")
        m = np.isfinite(rho) & (rho > 0)
        P2 = np.array([float(s.eos.P(a, b)) if ok else np.nan for a, b, ok in zip(rho, e, m)])
        E2 = np.array([float(s.eos.e(a, b)) if ok else np.nan for a, b, ok in zip(rho, p, m)])
        sc = np.abs(p) + np.abs(rho * e) + np.abs(P2)
        out.append(rel("p=eos.P(rho,e)", p, P2, 1e-9, m, scale=sc))
        out.append(rel("e=eos.e(rho,p)", e, E2, 1e-9, m, scale=np.abs(e) + np.abs(E2) + np.abs(p / np.where(m, rho, 1.0))))
    elif fam == "Rmtv":
        rho, p, e, T = f("density"), f("pressure"), f("energy"), f("temperature")
        out.append(rel("p=(gamma-1) rho e", p, (s.gamma - 1.0) * rho * e, 1e-12))
        out.append(rel("e=Gamma T/(gamma-1) [jerk/keV -> cgs: 1e13]", e, s.bigamma * T / (s.gamma - 1.0) * 1.0e13, 1e-12))
    elif fam in ("ED_Solver", "nED_Solver", "Sn_Solver", "ie_Solver"):
        rho, p, e = f("density"), f("pressure"), f("specific_internal_energy")
        # fields are interpolated separately on the profile; exact only on the profile's own nodes
        x = np.asarray(pts, dtype=float)
        nodes = -np.flip(np.asarray(s.x, dtype=float)) + t * s.sound * s.M0
        idx = np.clip(np.searchsorted(nodes, x), 0, len(nodes) - 1)
        onnode = (nodes[idx] == x)
        out.append(rel("e=p/((gamma-1) rho) [on profile nodes]", e * (s.gamma - 1.0) * rho, p, 1e-9, onnode))
        if "sound_speed" in N:
            out.append(rel("c^2=gamma p/rho [on profile nodes]", f("sound_speed") ** 2 * rho, s.gamma * p, 1e-9, onnode))
    return out


def eos_monitor(ctx, s, before, after, t, sol):
    try:
        rels = relations(s, before, t, sol)
    except (KeyError, ValueError, AttributeError) as e:
        ctx.count("relation_not_evaluable:%s:%s" % (type(s).__name__, type(e).__name__))
        return
    if rels is None:
        ctx.count("no_declared_relation:" + type(s).__name__)
        return
    name = type(s).__name__
    br0 = ""
    if hasattr(s, "soln_type"):
        br0 = " " + RC.pattern_of(s.soln_type) + (" gl!=gr" if getattr(s, "gl", 0) != getattr(s, "gr", 0) else "")
    elif hasattr(s, "geometry"):
        br0 = " g=%s" % getattr(s, "geometry")
    if family(s) == "NohBlackBoxEos":
        br0 += " " + type(s.eos).__name__
    if family(s) == "EPpiston":
        br0 += " " + str(s.model)
    for r in rels:
        lhs, rhs = r["lhs"], r["rhs"]
        m = r["mask"] if r["mask"] is not None else np.ones(lhs.shape, dtype=bool)
        m = m & ~(np.isnan(lhs) & np.isnan(rhs))
        skipped = int(lhs.size - m.sum())
        if skipped:
            ctx.count("points_skipped:" + name, skipped)
        if not m.any():
            continue
        sc = r["scale"] if r["scale"] is not None else np.maximum(np.abs(lhs), np.abs(rhs))
        sc = np.asarray(sc, dtype=float) * np.ones(lhs.shape)
        with np.errstate(all="ignore"):
            d = np.abs(lhs - rhs)[m]
            scm = sc[m]
            tol = r["tol"] * np.ones(lhs.shape)[m] if np.ndim(r["tol"]) == 0 else np.asarray(r["tol"])[m]
            bad = ~(d <= tol * scm)          # NaN/inf differences are violations
            ratio = np.where(scm > 0, d / np.where(scm > 0, scm, 1.0), 0.0)
        nontriv = bool(np.any(scm > 0))
        worst = float(np.nanmax(ratio)) if ratio.size else 0.0
        i = int(np.argmax(bad)) if bad.any() else 0
        ctx.observe("eos", name, not bad.any(), branch=r["label"] + br0, measure=worst,
                    tol=float(np.max(tol)), nontrivial=nontriv,
                    detail=dict(t=t, n_points=int(m.sum()), n_bad=int(bad.sum()),
                                first_bad=dict(point=np.asarray(before)[m][i].tolist() if np.ndim(before) else None,
                                               lhs=float(lhs[m][i]), rhs=float(rhs[m][i])) if bad.any() else None,
                                params={k: getattr(s, k) for k in getattr(s, "parameters", {})
                                        if isinstance(getattr(s, k, None), (int, float, str))}))


def setup(ctx):
    boundary.install(ctx, [eos_monitor])


# ---- catalogue sweep --------------------------------------------------------------------------
_classes = {}


def thermo_classes():
    if not _classes:
        for q, cls in sorted(C.discover().items()):
            ent, isw = C.general_entry_for(q, cls)
            if ent and C.CAT[ent]["thermo"]:
                _classes[q] = (cls, ent)
    return _classes


def gen_cat(rng, i, tier):
    return dict(slot=i, seed=int(rng.integers(2 ** 31)))


def run_cat(ctx, p):
    cl = thermo_classes()
    keys = sorted(cl)
    q = keys[p["slot"] % len(keys)]
    cls, ent = cl[q]
    e = C.CAT[ent]
    if e["cost"] > 5 and not ctx.thorough():
        raise Skip("costly_class_quick_tier")
    if e["cost"] >= 1 and (p["slot"] // len(keys)) % 4 != 0:
        raise Skip("costly_class_thinned")
    rng = np.random.default_rng(p["seed"])
    d = C.draw(ctx, cls, ent, rng, n=24)
    if d is None:
        raise Skip("no_admissible_draw")
    if family(d["solver"]) in ("ED_Solver", "nED_Solver", "Sn_Solver", "ie_Solver"):
        s = d["solver"]
        for t in (0.0, 3e-10):
            nodes = -np.flip(np.asarray(s.x, dtype=float)) + t * s.sound * s.M0
            ctx.call(s, nodes[:: max(1, len(nodes) // 400)], t)


# ---- dedicated Guderley sweep: all three regions (undisturbed, behind the converging shock, behind the reflected shock) --------
def gen_gud(rng, i, tier):
    return dict(geometry=2 + i % 2, gamma=[3.0, 2.0, 2.5, 6.0][(i // 2) % 4], rho0=[logu(rng, 0.1, 10), 1.0][(i // 8) % 2],
                t=[uni(rng, 0.05, 0.7), uni(rng, 0.8, 1.0), uni(rng, 1.0, 1.6)][i % 3], pseed=int(rng.integers(2 ** 31)))


def run_gud(ctx, p):
    from exactpack.solvers.guderley.guderley import Guderley
    s = ctx.make(Guderley, geometry=p["geometry"], gamma=p["gamma"], rho0=p["rho0"])
    rng = np.random.default_rng(p["pseed"])
    r = np.sort(np.exp(rng.uniform(np.log(0.02), np.log(3.0), size=40)))
    ctx.call(s, r, p["t"])                       # judged by the online EOS monitor


# ---- dedicated Riemann sweep -----------------------------------------------------------------
def gen_rm(rng, i, tier):
    jwl = (i % 10 == 9)
    if jwl:
        nm = choice(rng, sorted(RC.JWL_SETS))
        st = dict(RC.JWL_SETS[nm])
        st["problem"] = "JWL"
        xd0, t = 50.0, uni(rng, 5, 15)
    else:
        st = RC.gen_state(rng)
        xd0, t = RC.gen_frame(rng, st)
    return dict(which="GenEOS" if (jwl or i % 40 == 0) else "IGEOS", st=st, xd0=xd0, t=t,
                fr=[uni(rng, 0, 1) for _ in range(40)])


def run_rm(ctx, p):
    which, st, xd0, t = p["which"], p["st"], p["xd0"], p["t"]
    pat, V = RC.probe(ctx, which, st, xd0, t)
    span = max(float(V.max() - V.min()), 1e-3 * (abs(V).max() + 1e-300)) * t
    a, b = xd0 + t * V.min() - 0.3 * span, xd0 + t * V.max() + 0.3 * span
    s = RC.make_solver(ctx, which, st, xd0, a, b)
    x = np.sort(a + (b - a) * np.array(p["fr"]))
    x = np.concatenate([x, xd0 + t * V, xd0 + t * V * (1 + 1e-9)])      # also points on the waves (IGEOS)
    ctx.call(s, np.sort(x), t)


# ---- piston: all three regions, all three models ---------------------------------------------
def gen_pis(rng, i, tier):
    kw = C.gen_piston(rng, None)
    kw["model"] = ["hypo", "hyperIfin", "hyperFin"][i % 3]
    return dict(kw=kw, f=uni(rng, 0.2, 0.95), xmax=logu(rng, 0.5, 5))


def run_pis(ctx, p):
    from exactpack.solvers.ep_piston.ep_piston import EPpiston
    s = ctx.make(EPpiston, **p["kw"])
    if not (s.up > s.vel_y):
        raise Skip("piston_slower_than_precursor")
    xmax = p["xmax"]
    t = p["f"] * xmax / s.wv_el
    xp, xe = s.wv_pl * t, s.wv_el * t
    x = np.array([0.0, 0.5 * xp, xp * (1 - 1e-12), xp, 0.5 * (xp + xe), xe * (1 - 1e-12), xe, 0.5 * (xe + xmax), xmax])
    ctx.call(s, x, t)


# ---- black-box Noh with each EOS ---------------------------------------------------------------
def gen_bb(rng, i, tier):
    geom = 1 + (i % 3)
    kw = C.gen_bbnoh(rng, geom)
    kw["eos"] = ["ideal", "stiffened", "noble_abel", "carnahan_starling"][(i // 3) % 4]
    from .c16 import gen_consts
    c = gen_consts(rng, kw["eos"])
    kw["consts"] = c
    if kw["eos"] == "stiffened":
        kw["ic"]["density"] = c["rho_inf"] * uni(rng, 1.0, 1.5)
        # curvilinear Noh needs an EOS whose zero-pressure isochore does not depend on density
        # ([Ramsey17], cited by the package as the admissibility condition): stiffened gas is planar only
        geom = 1
        kw["ic"]["symmetry"] = 0
    elif kw["eos"] in ("noble_abel", "carnahan_starling"):
        kw["ic"]["density"] = logu(rng, 0.005, 0.02) / c["b"]
    return dict(kw=kw, geom=geom, cls=["NohBlackBoxEos", "wrapper"][int(rng.integers(2))], seed=int(rng.integers(2 ** 31)))


def run_bb(ctx, p):
    from exactpack.solvers.nohblackboxeos import blackboxnoh as B
    geom = p["geom"]
    cls = B.NohBlackBoxEos if p["cls"] == "NohBlackBoxEos" else \
        [B.PlanarNohBlackBox, B.CylindricalNohBlackBox, B.SphericalNohBlackBox][geom - 1]
    s = ctx.quiet(C.build_bbnoh, cls, p["kw"])
    rng = np.random.default_rng(p["seed"])
    pts, t = C.dom_bbnoh(rng, s, p["kw"], geom, 16)
    ctx.call(s, pts, t)
    # the same object solved again after it has been evaluated - a parameter sweep through the EOS's own setter, or a new
    # starting guess - and evaluated again: the fields must satisfy the EOS as it is then (the monitor asks the live
    # s.eos), whatever was computed and kept for the first state
    mode = p["seed"] % 3
    name, c = p["kw"]["eos"], p["kw"]["consts"]
    if mode == 0:
        return
    if mode == 1 and name in ("noble_abel", "carnahan_starling"):
        ctx.quiet(s.eos.set_new_co_volume, c["b"] * uni(rng, 0.3, 0.8))
        how = "co-volume changed through the EOS setter"
    elif mode == 1 and name == "stiffened":
        ctx.quiet(s.eos.set_new_sound_speed, c["c_s"] * uni(rng, 1.1, 1.5))
        how = "sound speed changed through the EOS setter"
    else:
        s.set_new_solver_initial_guess(list(type(s).initial_guess))
        how = "class-default starting guess"
    ctx.count("bbnoh_second_solve:" + how)
    ctx.quiet(s.solve_jump_conditions)
    ctx.call(s, pts, t)


def reach(tot, tier):
    out = []
    seen = set(k.split("|")[1] for k in tot["stats"])
    want = ["Noh", "Noh2", "Sedov", "Guderley", "IGEOS_Solver", "GenEOS_Solver", "EscapeOfHEProducts", "Mader",
            "SteadyDetonationReactionZone", "EPpiston", "NohBlackBoxEos", "Rmtv", "ED_Solver", "nED_Solver",
            "Cog1", "Cog8", "Cog13", "Cog17", "Cog19", "Cog20", "Cog21", "Noh2Cog"]
    for w in want:
        if w not in seen:
            out.append("EOS monitor never evaluated for class %s" % w)
    return out


MON_ID = "C03"


# ---- the repository's own test-suite as a workload under the boundary monitors (thorough tier) --------------------------
def gen_suite(rng, i, tier):
    return dict(which=MON_ID)


def run_suite(ctx, p):
    import glob
    import json
    import os
    import shutil
    import subprocess
    import sys
    import tempfile
    from ..core import VERIF
    if p.get("test"):
        tests = [p["test"]]
    else:
        tests = ["exactpack/tests"]
    repo = os.environ.get("EXACTPACK_REPO", "/repo")
    out = tempfile.mkdtemp(prefix="rtm_suite_")
    env = dict(os.environ, EXACTPACK_VERIF="1", RTM_SUITE_OUT=out, RTM_SUITE_MONITORS=MON_ID, MPLBACKEND="Agg")
    try:
        cmd = [sys.executable, "-m", "pytest", "-q", "-p", "no:cacheprovider", "-p", "rtm.pytest_plugin", "--timeout=900", "-n", "8"] + tests
        pr = subprocess.run(cmd, cwd=repo, env=env, capture_output=True, text=True, timeout=5400)
        tail = pr.stdout.strip().split("\n")[-1] if pr.stdout.strip() else ""
        ctx.count("suite_pytest_exit_%s" % pr.returncode)
        n = 0
        for f in glob.glob(os.path.join(out, "suite_*.json")):
            with open(f) as fh:
                d = json.load(fh)
            n += d.get("boundary_events", 0)
            ctx.absorb(d, unit="suite")
        ctx.count("suite_boundary_events", n)
        if n == 0:
            raise Skip("suite_replay_observed_nothing: " + tail[:80])
    finally:
        shutil.rmtree(out, ignore_errors=True)


UNITS = [
    Unit("catalogue", gen_cat, run_cat, quick=480, thorough=4800, min_nontrivial=400),
    Unit("guderley", gen_gud, run_gud, quick=12, thorough=96, min_nontrivial=12),
    Unit("riemann", gen_rm, run_rm, quick=400, thorough=6000, min_nontrivial=300),
    Unit("piston", gen_pis, run_pis, quick=90, thorough=1800, min_nontrivial=60),
    Unit("bbnoh", gen_bb, run_bb, quick=120, thorough=2400, min_nontrivial=60),
    Unit("suite", gen_suite, run_suite, quick=0, thorough=1, min_nontrivial=100),
]

"""C04 - 1-D Riemann solutions conserve mass, momentum and energy in integral form.

For a window [a,b] containing all waves:
    int_a^b U(x,t) dx = (xd0-a) U_L + (b-xd0) U_R + t (F(U_L) - F(U_R)),
U = (rho, rho u, rho (e + u^2/2)), F = (rho u, rho u^2 + p, u (rho (e+u^2/2) + p)),
with every quantity taken from the fields the public call returns (e is the returned
specific internal energy, so the relation is EOS-agnostic: ideal gas and JWL alike).

Monitors
  conservation      piecewise Simpson between the wave positions (with Richardson error
                    estimate; the pieces come from the solver's Vregs, which only affects the
                    quadrature accuracy, never the expected value)
  conservation.grid the same balance by the trapezoid rule on a uniform grid that knows
                    nothing about wave positions (tolerance: grid spacing x total variation) -
                    guards against fields whose jumps are not where Vregs says
  window            the states returned at the window ends are the initial states
"""
import math

import numpy as np

from ..core import Unit, Skip, SolverRaised, logu, uni, choice
from ..oracles import simpson
from .. import riemann_common as RC

RULE = ("random left/right states (rho, p log-uniform over 2 decades, velocities of either sign and "
        "unequal, gamma_l != gamma_r in (1.1,3)), random membrane position, time and window; vacuum-"
        "forming and out-of-bracket states raise and are counted; JWL parameter sets with perturbed "
        "states for the general solver.  distinct = (monitor, solver, pattern+component, case); "
        "non-trivial = waves present (star state differs from both initial states).")
ASSUME = ["Simpson quadrature on smooth pieces with Richardson error estimate; a case whose quadrature "
          "error estimate exceeds the tolerance is inconclusive, never a violation",
          "GenEOS values are only accurate to its internal grid (10001 cells over the window): tolerance "
          "scales with cell width x total variation"]

COMP = ("mass", "momentum", "energy")


def gen_ig(rng, i, tier):
    st = RC.gen_state(rng)
    xd0, t = RC.gen_frame(rng, st)
    return dict(which="IGEOS", st=st, xd0=xd0, t=t, pad=[uni(rng, 0.05, 1.0), uni(rng, 0.05, 1.0)])


def gen_gen(rng, i, tier):
    if i % 4 == 3:
        nm = choice(rng, sorted(RC.JWL_SETS))
        st = dict(RC.JWL_SETS[nm])
        st["problem"] = "JWL"
        if i % 8 == 7:
            for k in ("rl", "pl", "rr", "pr"):
                st[k] *= uni(rng, 0.8, 1.25)
            c = math.sqrt(st["gl"] * st["pl"] / st["rl"])
            st["ul"], st["ur"] = uni(rng, -0.3, 0.3) * c, uni(rng, -0.3, 0.3) * c
        xd0, t = 50.0, uni(rng, 5, 15)
    else:
        st = RC.gen_state(rng)
        xd0, t = RC.gen_frame(rng, st)
    return dict(which="GenEOS", st=st, xd0=xd0, t=t, pad=[uni(rng, 0.05, 1.0), uni(rng, 0.05, 1.0)], ideal_first=(i % 8 == 3 or i % 16 == 7))


def fields(sol):
    return (np.array(sol["density"], dtype=float), np.array(sol["velocity"], dtype=float),
            np.array(sol["pressure"], dtype=float), np.array(sol["specific_internal_energy"], dtype=float))


def run(ctx, p):
    which, st, xd0, t = p["which"], p["st"], p["xd0"], p["t"]
    name = which + "_Solver"
    if st.get("problem") == "JWL" and p.get("ideal_first", True):
        # the same left/right states are solved with the ideal-gas closure first, in the same interpreter: whatever the
        # general solver keeps between solves (tables, Hugoniot loci, integrator state) must not leak into the JWL solve
        st0 = {k: v for k, v in st.items() if k not in ("problem", "A", "B", "R1", "R2", "r0", "e0")}
        try:
            RC.probe(ctx, which, st0, xd0, t)
            ctx.count("jwl_case_preceded_by_ideal_gas_solve_of_the_same_states")
        except (SolverRaised, Skip):
            ctx.count("ideal_gas_decoy_solve_raised")
    pat, V = RC.probe(ctx, which, st, xd0, t)
    span = max(float(V.max() - V.min()), 1e-3 * (abs(V).max() + 1e-300)) * t
    a = xd0 + t * float(V.min()) - p["pad"][0] * span
    b = xd0 + t * float(V.max()) + p["pad"][1] * span
    a, b = min(a, xd0 - 0.05 * span), max(b, xd0 + 0.05 * span)
    s = RC.make_solver(ctx, which, st, xd0, a, b)
    X = RC.pieces(V, xd0, t, a, b)
    geneos = which == "GenEOS"
    h_cell = (b - a) / 10000.0
    n = 513
    xs, segs = [], []
    for k in range(len(X) - 1):
        lo, hi = X[k], X[k + 1]
        w = hi - lo
        if geneos:
            m = min(1.5 * h_cell, 0.25 * w)
        else:
            m = 1e-12 * max(abs(lo), abs(hi), w)
        seg = np.linspace(lo + m, hi - m, n)
        xs.append(seg)
        segs.append((lo, hi, m))
    allx = np.concatenate([[a], np.concatenate(xs), [b]])
    sol = ctx.call(s, allx, t)
    if RC.pattern_of(s.soln_type) != pat:
        raise Skip("pattern_changed_between_calls")
    r, u, pr_, e = fields(sol)
    UL, FL = RC.flux(r[0], u[0], pr_[0], e[0])
    UR, FR = RC.flux(r[-1], u[-1], pr_[-1], e[-1])
    # the window really contains all waves: end states are the initial data
    endok = (abs(r[0] - st["rl"]) <= 1e-12 * st["rl"] and abs(pr_[0] - st["pl"]) <= 1e-12 * st["pl"]
             and abs(u[0] - st["ul"]) <= 1e-12 * (abs(st["ul"]) + math.sqrt(st["pl"] / st["rl"]))
             and abs(r[-1] - st["rr"]) <= 1e-12 * st["rr"] and abs(pr_[-1] - st["pr"]) <= 1e-12 * st["pr"]
             and abs(u[-1] - st["ur"]) <= 1e-12 * (abs(st["ur"]) + math.sqrt(st["pr"] / st["rr"])))
    ctx.observe("window", name, endok, branch=pat,
                detail=dict(left=[r[0], u[0], pr_[0]], right=[r[-1], u[-1], pr_[-1]], st=st))
    if not endok:
        return
    U, _ = RC.flux(r[1:-1], u[1:-1], pr_[1:-1], e[1:-1])       # (3, npts)
    I = np.zeros(3)
    Ierr = np.zeros(3)
    for k, (lo, hi, m) in enumerate(segs):
        seg = xs[k]
        for c in range(3):
            y = U[c, k * n:(k + 1) * n]
            val, err = simpson(y, seg)
            val += m * (y[0] + y[-1])          # the two thin strips next to the wave positions
            I[c] += val
            Ierr[c] += err if math.isfinite(err) else 0.0
    expect = (xd0 - a) * UL + (b - xd0) * UR + t * (FL - FR)
    scale = (abs(xd0 - a) * np.abs(UL) + abs(b - xd0) * np.abs(UR) + t * np.abs(FL) + t * np.abs(FR) + np.abs(I))
    # total variation of the conserved densities (for the resolution-based tolerances)
    TV = np.sum(np.abs(np.diff(U, axis=1)), axis=1)
    ntv = bool(np.any(TV > 1e-9 * np.max(np.abs(U), axis=1)))
    du_sign = "du=0" if st["ul"] == st["ur"] else "du!=0"
    for c in range(3):
        res = abs(I[c] - expect[c]) / scale[c]
        if geneos:
            tol = 1e-5 + 6.0 * h_cell * TV[c] / scale[c]
        else:
            tol = 1e-8
        ok = res <= tol + 10 * Ierr[c] / scale[c]
        if ok and 10 * Ierr[c] / scale[c] > 10 * tol:
            ok = None
        ctx.observe("conservation", name, ok, branch="%s %s %s" % (pat, COMP[c], du_sign), measure=res, tol=tol,
                    detail=dict(integral=I[c], expected=expect[c], scale=scale[c], quad_err=Ierr[c],
                                window=[a, b], Vregs=V.tolist()),
                    nontrivial=ntv)
    # ---- independent uniform-grid balance ----------------------------------------------------
    N = 20001 if not geneos else 10001
    xg = np.linspace(a, b, N)
    sg = ctx.call(s, xg, t)
    rg, ug, pg, eg = fields(sg)
    Ug, _ = RC.flux(rg, ug, pg, eg)
    hg = (b - a) / (N - 1)
    for c in range(3):
        Ig = float(np.trapezoid(Ug[c], xg))
        TVg = float(np.sum(np.abs(np.diff(Ug[c]))))
        tol = (1.5 * hg * TVg) / scale[c] + 1e-9 + (3.0 * h_cell * TVg / scale[c] if geneos else 0.0)
        res = abs(Ig - expect[c]) / scale[c]
        ctx.observe("conservation.grid", name, res <= tol, branch="%s %s" % (pat, COMP[c]), measure=res, tol=tol,
                    detail=dict(integral=Ig, expected=expect[c], N=N), nontrivial=ntv)


def reach(tot, tier):
    """every wave pattern must have been observed (read from the solver's soln_type)"""
    need = 8 if tier == "quick" else 60
    out = []
    for sv, nd in (("IGEOS_Solver", need), ("GenEOS_Solver", 1)):
        for pat in RC.PATTERNS:
            n = sum(st["evals"] for k, st in tot["stats"].items()
                    if k.startswith("conservation|%s|%s " % (sv, pat)))
            if n < 3 * nd:
                out.append("pattern %s of %s reached only %d times" % (pat, sv, n // 3))
    n = sum(st["evals"] for k, st in tot["stats"].items()
            if k.startswith("conservation|IGEOS_Solver|SCR") and k.endswith("du!=0"))
    if n < 3:
        out.append("S-C-R with a velocity difference not reached")
    return out


UNITS = [
    Unit("igeos", gen_ig, run, quick=480, thorough=6000, min_nontrivial=300),
    Unit("geneos", gen_gen, run, quick=32, thorough=400, min_nontrivial=30),
]

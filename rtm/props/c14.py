"""C14 - heat solutions satisfy the heat equation, boundary conditions and initial data.

All through the public call, derivatives by 9-point differences with error bars (rtm.oracles):
  heat.pde    interior residual of T_t = kappa Lap(T) in the solver's coordinates (1-D; spherical;
              (x,y); (r,theta); Hutchens 2: the steady equation Lap(T) + g0/k = 0)
  heat.bc     the declared boundary operators at t > 0 (values exactly on the boundary; fluxes by
              one-sided 5-point differences)
  heat.ic     T(x, t -> 0+) against the declared initial profile in the interior (tolerance from the
              truncated series tail)
  heat.limit  T(x, t -> infinity) against the stated static solution
  heat.origin value at r = 0 against the limit of nearby values (Hutchens 1)
"""
import math

import numpy as np

from ..core import Unit, Skip, SolverRaised, logu, uni, choice
from ..oracles import derivs9, OFF9, residual
from .. import catalogue as C

RULE = ("random diffusivities, lengths/radii, boundary values and fluxes, end temperatures, truncation orders; Rod1D "
        "BC1-BC4 and general Robin coefficients of both signs, three sandwiches, rectangle, Hutchens 1/2, cylindrical "
        "sandwich (reduced sums).  distinct = (monitor, class, BC class/branch, case); non-trivial = non-zero terms.")
ASSUME = ["series tolerances: 10 x the first omitted term for values, finite-difference error bars for derivatives",
          "one-sided 5-point stencils for boundary fluxes (4th order)"]


# nodes of the low modes of the four boundary-condition classes: m/n, 2m/(2n+1), (2m+1)/(2n+1), (2m+1)/(2n)
NODE_FRACTIONS = [1 / 2, 1 / 3, 2 / 3, 1 / 4, 3 / 4, 1 / 5, 2 / 5, 3 / 5, 4 / 5, 2 / 7, 1 / 6]


def one_sided(f, h):
    """4th-order one-sided first derivative from f(x0), f(x0+h) ... f(x0+4h)"""
    return (-25 * f[0] + 48 * f[1] - 36 * f[2] + 16 * f[3] - 3 * f[4]) / (12 * h)


def T1d(ctx, s, x, t):
    return np.asarray(ctx.call(s, np.asarray(x, float), t)["temperature"], float)


# ---- rod family -------------------------------------------------------------------------------------------------------
def gen_rod(rng, i, tier):
    kind = i % 8
    if kind < 4:
        kw = C.gen_rod(rng, None)
        # force BC class kind+1
        g1, g2 = uni(rng, -2, 2), uni(rng, -2, 2)
        bc = kind + 1
        if bc == 1:
            kw.update(alpha1=choice(rng, [1.0, 2.0, -1.5]), beta1=0.0, gamma1=g1, alpha2=choice(rng, [1.0, 0.5]), beta2=0.0, gamma2=g2)
        elif bc == 2:
            b = choice(rng, [1.0, 2.0])
            kw.update(alpha1=0.0, beta1=b, gamma1=g1 * b, alpha2=0.0, beta2=1.0, gamma2=g1)
        elif bc == 3:
            kw.update(alpha1=1.0, beta1=0.0, gamma1=g1, alpha2=0.0, beta2=choice(rng, [1.0, -2.0]), gamma2=g2)
        else:
            kw.update(alpha1=0.0, beta1=choice(rng, [1.0, 3.0]), gamma1=g1, alpha2=1.0, beta2=0.0, gamma2=g2)
        cls, label = "Rod1D", "BC%d" % bc
    elif kind == 4:
        kw = C.gen_rod(rng, None)
        co = [0.5, -0.5, 1.0, -1.0, 2.0, -2.0, 3.0]
        kw.update(alpha1=choice(rng, co), beta1=choice(rng, co), gamma1=uni(rng, -2, 2), alpha2=choice(rng, co), beta2=choice(rng, co), gamma2=uni(rng, -2, 2))
        cls, label = "Rod1D", "Robin"
    else:
        cls = ["PlanarSandwich", "PlanarSandwichHot", "PlanarSandwichHalf"][kind - 5]
        kw = C.CAT[cls]["gen"](rng, None)
        label = cls
    kw["Nsum"] = int(choice(rng, [200, 1000]))
    return dict(cls=cls, label=label, kw=kw, xf=[uni(rng, 0.15, 0.85) for _ in range(3)], tf=logu(rng, 3e-3, 0.5))


def rod_bc_of(s):
    return (float(s.alpha1), float(s.beta1), float(s.gamma1)), (float(s.alpha2), float(s.beta2), float(s.gamma2))


def run_rod(ctx, p):
    cls = C.load(C.CAT[p["cls"]]["path"])
    kw = p["kw"]
    s = ctx.make(cls, **kw)
    L, kap, N = float(s.L), float(s.kappa), int(s.Nsum)
    TL, TR = float(s.TL), float(s.TR)
    (a1, b1, c1), (a2, b2, c2) = rod_bc_of(s)
    # the expected boundary data and end temperatures come from what the *user* passed, not from the solver's attributes:
    # sandwiches map (TB, TT) / (F, F) / (TB, FT) to the two boundary conditions as their documentation says
    if p["cls"] == "PlanarSandwich":
        (a1, b1, c1), (a2, b2, c2) = (1.0, 0.0, float(kw["TB"])), (1.0, 0.0, float(kw["TT"]))
    elif p["cls"] == "PlanarSandwichHot":
        (a1, b1, c1), (a2, b2, c2) = (0.0, 1.0, float(kw["F"])), (0.0, 1.0, float(kw["F"]))
    elif p["cls"] == "PlanarSandwichHalf":
        (a1, b1, c1), (a2, b2, c2) = (1.0, 0.0, float(kw["TB"])), (0.0, 1.0, float(kw["FT"]))
    else:
        (a1, b1, c1), (a2, b2, c2) = tuple(float(kw[k]) for k in ("alpha1", "beta1", "gamma1")), tuple(float(kw[k]) for k in ("alpha2", "beta2", "gamma2"))
    TL, TR, L, kap = float(kw["TL"]), float(kw["TR"]), float(kw["L"]), float(kw["kappa"])
    name, br = cls.__name__, p["label"]
    amp = max(abs(TL), abs(TR), abs(c1), abs(c2), 1e-3) * (1 + L)
    t = p["tf"] * L * L / kap
    det = dict(kw=kw, t=t)
    probe = T1d(ctx, s, [0.5 * L], t)
    if not np.all(np.isfinite(probe)):
        ctx.observe("heat.pde", name, False, branch=br + " finite", detail=dict(det, value=probe.tolist()))
        return
    # ---- PDE ----------------------------------------------------------------------------------------------------------
    hx, ht = 5e-3 * L, 5e-3 * t
    for f in p["xf"]:
        x0 = f * L
        X = T1d(ctx, s, x0 + OFF9 * hx / 2, t)
        Tt = np.array([T1d(ctx, s, [x0], t + k * ht / 2)[0] for k in OFF9])
        _, _, _, Txx, eTxx = derivs9(X, hx)
        _, Tt1, eTt, _, _ = derivs9(Tt, ht)
        # the series is summed from terms of the size of the boundary/initial data: its rounding noise is eps x amp (not
        # eps x |T|), amplified by the stencils - it dominates where the local temperature is a small remainder
        noise = 100 * 2.2e-16 * amp
        eTxx += noise / (hx / 2) ** 2
        eTt += noise / (ht / 2)
        ok, res, sc = residual([Tt1, -kap * Txx], [eTt, kap * eTxx], tol=1e-5)
        triv = sc <= 1e-7 * amp * kap / (L * L)
        ctx.observe("heat.pde", name, True if triv else ok, branch=br, measure=res, tol=1e-5, nontrivial=not triv, detail=dict(det, x=x0))
    # the same equation from single-point requests centred on a node of a low mode (x/L rational): a request that consists
    # of nodes only is the one a "negligible term" shortcut can mistake for a converged sum
    k0 = int(p["xf"][0] * 1e6) % len(NODE_FRACTIONS)
    for f in (NODE_FRACTIONS[k0], NODE_FRACTIONS[(k0 + 3) % len(NODE_FRACTIONS)]):
        x0 = f * L
        X = np.array([T1d(ctx, s, [x0 + o * hx / 2], t)[0] for o in OFF9])
        Tt = np.array([T1d(ctx, s, [x0], t + k * ht / 2)[0] for k in OFF9])
        _, _, _, Txx, eTxx = derivs9(X, hx)
        _, Tt1, eTt, _, _ = derivs9(Tt, ht)
        noise = 100 * 2.2e-16 * amp
        eTxx += noise / (hx / 2) ** 2
        eTt += noise / (ht / 2)
        ok, res, sc = residual([Tt1, -kap * Txx], [eTt, kap * eTxx], tol=1e-5)
        triv = sc <= 1e-7 * amp * kap / (L * L)
        ctx.observe("heat.pde", name, True if triv else ok, branch=br + " single-point requests at a mode node", measure=res, tol=1e-5,
                    nontrivial=not triv, detail=dict(det, x=x0, x_over_L=f))
    # ---- boundary operators at t > 0 ------------------------------------------------------------------------------
    h = 2e-3 * L
    xl = np.arange(5) * h
    Tl = T1d(ctx, s, xl, t)
    Tr_ = T1d(ctx, s, L - xl, t)
    dl = one_sided(Tl, h)
    dr = -one_sided(Tr_, h)
    # truncation of the series makes the boundary value itself inexact by ~ first omitted term
    tail = amp * math.exp(-kap * (N * math.pi / L) ** 2 * t) + 1e-9 * amp
    for side, (a, b, c), T0, d0 in (("x=0", (a1, b1, c1), Tl[0], dl), ("x=L", (a2, b2, c2), Tr_[0], dr)):
        lhs = a * T0 + b * d0
        sc = abs(a * T0) + abs(b * d0) + abs(c) + 1e-300
        fd = abs(b) * amp / L * (h / L) ** 4 * 1e3      # one-sided stencil truncation
        okb = abs(lhs - c) <= 1e-8 * sc + 10 * tail * (abs(a) + abs(b) / L) + fd
        ctx.observe("heat.bc", name, okb, branch="%s %s" % (br, side), measure=abs(lhs - c) / sc, tol=1e-8,
                    detail=dict(det, alpha=a, beta=b, gamma=c, T=float(T0), dTdx=float(d0)), nontrivial=sc > 1e-12)
    # ---- initial data ------------------------------------------------------------------------------------------------
    ts = 1e-7 * L * L / kap
    xi = np.array([0.2, 0.35, 0.5, 0.65, 0.8]) * L
    Ti = T1d(ctx, s, xi, ts)
    want = TL + (TR - TL) * xi / L
    tol_ic = 40.0 * amp / N + 1e-3 * amp
    err = float(np.max(np.abs(Ti - want)))
    ctx.observe("heat.ic", name, err <= tol_ic, branch=br, measure=err / amp, tol=tol_ic / amp, detail=dict(det, got=Ti.tolist(), want=want.tolist()))
    # ---- t -> infinity: static solution = linear profile satisfying both boundary operators -------------------------
    # (pure-flux BC2 has no unique steady state: only the boundary operators are checked there)
    tinf = 60.0 * L * L / kap
    X = T1d(ctx, s, np.array([0.0, 0.25, 0.5, 0.75, 1.0]) * L, tinf)
    if br != "BC2":
        det_m = a1 * (a2 * L + b2) - a2 * b1
        if abs(det_m) > 1e-9:
            A0 = (c1 * (a2 * L + b2) - c2 * b1) / det_m
            A1 = (a1 * c2 - a2 * c1) / det_m
            want = A0 + A1 * np.array([0.0, 0.25, 0.5, 0.75, 1.0]) * L
            err = float(np.max(np.abs(X - want)))
            sc = max(float(np.max(np.abs(want))), amp)
            # a Robin problem can have a growing mode (negative eigenvalue): then there is no approach to the static
            # solution and the check does not apply
            unstable = br == "Robin" and not np.all(np.isfinite(X))
            ctx.observe("heat.limit", name, (err <= 1e-6 * sc) if not unstable else None, branch=br, measure=err / sc, tol=1e-6,
                        detail=dict(det, got=X.tolist(), want=want.tolist()))


# ---- rectangle ----------------------------------------------------------------------------------------------------------
def gen_rect(rng, i, tier):
    return dict(kw=C.CAT["Rectangle"]["gen"](rng, None), xf=uni(rng, 0.2, 0.8), yf=uni(rng, 0.2, 0.8), tf=logu(rng, 5e-3, 0.2))


def Tcomp(ctx, s, a, b, t):
    return np.asarray(ctx.call(s, np.array([np.asarray(a, float), np.asarray(b, float)]), t)["temperature"], float)


def run_rect(ctx, p):
    from exactpack.solvers.heat.rectangle import Rectangle
    kw = dict(p["kw"])
    kw["Nsum"] = 60
    # sinh(k_n b) overflows for n pi b/a > 710 (inf/inf = NaN: C20's subject); keep the aspect ratio resolvable
    if kw["b"] > 3.0 * kw["a"]:
        kw["b"] = 3.0 * kw["a"]
    s = ctx.make(Rectangle, **kw)
    a, b, kap, Tt = kw["a"], kw["b"], kw["kappa"], kw["Ttop"]
    t = p["tf"] * min(a, b) ** 2 / kap
    x0, y0 = p["xf"] * a, p["yf"] * b
    hx, hy, ht = 5e-3 * a, 5e-3 * b, 5e-3 * t
    X = Tcomp(ctx, s, x0 + OFF9 * hx / 2, np.full(9, y0), t)
    Y = Tcomp(ctx, s, np.full(9, x0), y0 + OFF9 * hy / 2, t)
    Tm = np.array([Tcomp(ctx, s, [x0], [y0], t + k * ht / 2)[0] for k in OFF9])
    _, _, _, Txx, e1 = derivs9(X, hx)
    _, _, _, Tyy, e2 = derivs9(Y, hy)
    _, Tt1, e3, _, _ = derivs9(Tm, ht)
    ok, res, sc = residual([Tt1, -kap * Txx, -kap * Tyy], [e3, kap * e1, kap * e2], tol=1e-4)
    det = dict(kw=kw, t=t, x=x0, y=y0)
    # far from the heated side at early times the transient cancels the static part to round-off: 0 = 0
    triv = sc <= 1e-7 * kap * abs(Tt) / min(a, b) ** 2
    ctx.observe("heat.pde", "Rectangle", True if triv else ok, branch="interior", measure=res, tol=1e-4, detail=det, nontrivial=not triv)
    xs = np.array([0.2, 0.5, 0.8]) * a
    bot = Tcomp(ctx, s, xs, np.zeros(3), t)
    top = Tcomp(ctx, s, xs, np.full(3, b), t)
    ctx.observe("heat.bc", "Rectangle", float(np.max(np.abs(bot))) <= 1e-9 * Tt, branch="bottom T=0", measure=float(np.max(np.abs(bot))) / Tt, tol=1e-9, detail=det)
    # Gibbs-type truncation of the sine series of a constant: ~ 1/(pi N x/a)
    ctx.observe("heat.bc", "Rectangle", float(np.max(np.abs(top - Tt))) <= 0.05 * Tt, branch="top T=Ttop", measure=float(np.max(np.abs(top - Tt))) / Tt, tol=0.05, detail=det)
    # declared zero-flux sides
    h = 2e-3 * a
    ys = np.array([0.3, 0.6]) * b
    worst = 0.0
    for yy in ys:
        f = Tcomp(ctx, s, np.arange(5) * h, np.full(5, yy), t)
        worst = max(worst, abs(one_sided(f, h)) * a / Tt)
    ctx.observe("heat.bc", "Rectangle", worst <= 1e-3, branch="side x=0: dT/dx=0 (declared zero flux)", measure=worst, tol=1e-3, detail=det)
    ti = 1e-6 * min(a, b) ** 2 / kap
    ic = Tcomp(ctx, s, np.array([0.3, 0.5, 0.7]) * a, np.array([0.3, 0.5, 0.6]) * b, ti)
    ctx.observe("heat.ic", "Rectangle", float(np.max(np.abs(ic))) <= 0.05 * Tt, branch="T(t->0)=0", measure=float(np.max(np.abs(ic))) / Tt, tol=0.05, detail=det)


# ---- Hutchens 1 ----------------------------------------------------------------------------------------------------------
def gen_h1(rng, i, tier):
    return dict(kw=C.CAT["Hutchens1"]["gen"](rng, None), rf=uni(rng, 0.2, 0.8), tf=logu(rng, 5e-3, 0.3))


def run_h1(ctx, p):
    from exactpack.solvers.heat.hutchens1 import Hutchens1
    kw = dict(p["kw"])
    kw["Nsum"] = 400
    s = ctx.make(Hutchens1, **kw)
    b, Tb, T0 = kw["b"], kw["Tb"], kw["T0"]
    al = kw["k"] / (kw["rho"] * kw["cp"])
    t = p["tf"] * b * b / al
    r0 = p["rf"] * b
    hr, ht = 5e-3 * b, 5e-3 * t
    X = T1d(ctx, s, r0 + OFF9 * hr / 2, t)
    Tm = np.array([T1d(ctx, s, [r0], t + k * ht / 2)[0] for k in OFF9])
    _, Tr1, e1, Trr, e2 = derivs9(X, hr)
    _, Tt1, e3, _, _ = derivs9(Tm, ht)
    det = dict(kw=kw, t=t, r=r0)
    ok, res, sc = residual([Tt1, -al * Trr, -al * 2 * Tr1 / r0], [e3, al * e2, al * 2 * e1 / r0], tol=1e-5)
    amp = abs(Tb - T0) + 1e-300
    triv = sc <= 1e-7 * amp * al / b ** 2
    ctx.observe("heat.pde", "Hutchens1", True if triv else ok, branch="interior", measure=res, tol=1e-5, detail=det, nontrivial=not triv)
    # the same derivative from two one-point calls a millionth of the radius apart on the same object (a user's own
    # finite difference): must agree with the stencil value
    hs = 1e-6 * b
    Tp, Tmn = T1d(ctx, s, [r0 + hs], t)[0], T1d(ctx, s, [r0 - hs], t)[0]
    d_small = (Tp - Tmn) / (2 * hs)
    scale_d = max(abs(Tr1), amp / b * 1e-3)
    ctx.observe("heat.pde", "Hutchens1", abs(d_small - Tr1) <= 1e-4 * scale_d + 10 * e1 + 1e-9 * amp / hs, branch="dT/dr from two one-point calls 1e-6 b apart",
                measure=abs(d_small - Tr1) / scale_d, tol=1e-4, detail=dict(det, small_step=float(d_small), stencil=float(Tr1)), nontrivial=abs(Tr1) > 1e-6 * amp / b)
    Tsurf = T1d(ctx, s, [b], t)[0]
    ctx.observe("heat.bc", "Hutchens1", abs(Tsurf - Tb) <= 1e-9 * max(abs(Tb), amp), branch="T(b)=Tb", measure=abs(Tsurf - Tb) / amp, tol=1e-9, detail=det)
    ti = 1e-6 * b * b / al
    ic = T1d(ctx, s, np.array([0.3, 0.5, 0.7]) * b, ti)
    ctx.observe("heat.ic", "Hutchens1", float(np.max(np.abs(ic - T0))) <= 0.02 * amp, branch="T(t->0)=T0", measure=float(np.max(np.abs(ic - T0))) / amp, tol=0.02, detail=det)
    # origin: limit of nearby values
    near = T1d(ctx, s, np.array([1e-6, 2e-6]) * b, t)
    at0 = T1d(ctx, s, [0.0], t)[0]
    ctx.observe("heat.origin", "Hutchens1", abs(at0 - near[0]) <= 1e-6 * amp + abs(near[1] - near[0]), branch="T(0)=lim T(r->0)",
                measure=abs(at0 - near[0]) / amp, tol=1e-6, detail=dict(det, at_origin=float(at0), nearby=near.tolist()),
                nontrivial=abs(near[0] - T0) > 1e-6 * amp)


# ---- Hutchens 2 (steady) -----------------------------------------------------------------------------------------------------
def gen_h2(rng, i, tier):
    return dict(kw=C.CAT["Hutchens2"]["gen"](rng, None), rf=uni(rng, 0.2, 0.8), zf=uni(rng, 0.2, 0.8))


def run_h2(ctx, p):
    from exactpack.solvers.heat.hutchens2 import Hutchens2
    kw = dict(p["kw"])
    kw["Nsum"] = 50
    # I0(lambda_n b) overflows for (2N-1) pi b/L > 700 (inf/inf = NaN: C20's subject)
    if kw["b"] > 1.8 * kw["L"]:
        kw["b"] = 1.8 * kw["L"]
    s = ctx.make(Hutchens2, **kw)
    b, L, k, g0 = kw["b"], kw["L"], kw["k"], kw["g0"]
    r0, z0 = p["rf"] * b, p["zf"] * L
    hr, hz = 2e-2 * b, 2e-2 * L
    Rr = Tcomp(ctx, s, r0 + OFF9 * hr / 2, np.full(9, z0), 0.0)
    Zz = Tcomp(ctx, s, np.full(9, r0), z0 + OFF9 * hz / 2, 0.0)
    _, Tr1, e1, Trr, e2 = derivs9(Rr, hr)
    _, _, _, Tzz, e3 = derivs9(Zz, hz)
    det = dict(kw=kw, r=r0, z=z0)
    ok, res, sc = residual([Trr, Tr1 / r0, Tzz, g0 / k], [e2, e1 / r0, e3], tol=1e-4)
    ctx.observe("heat.pde", "Hutchens2", ok, branch="steady Lap(T)+g0/k=0", measure=res, tol=1e-4, detail=det)
    amp = max(abs(kw["Tb"]), abs(kw["T0"]), abs(kw["TL"]), g0 * L * L / k)
    zs = np.array([0.3, 0.5, 0.7]) * L
    side = Tcomp(ctx, s, np.full(3, b), zs, 0.0)
    ctx.observe("heat.bc", "Hutchens2", float(np.max(np.abs(side - kw["Tb"]))) <= 0.05 * amp, branch="T(r=b)=Tb",
                measure=float(np.max(np.abs(side - kw["Tb"]))) / amp, tol=0.05, detail=dict(det, got=side.tolist()))
    rs = np.array([0.3, 0.6]) * b
    bot = Tcomp(ctx, s, rs, np.zeros(2), 0.0)
    topv = Tcomp(ctx, s, rs, np.full(2, L), 0.0)
    ctx.observe("heat.bc", "Hutchens2", float(np.max(np.abs(bot - kw["T0"]))) <= 1e-6 * amp, branch="T(z=0)=T0", measure=float(np.max(np.abs(bot - kw["T0"]))) / amp, tol=1e-6, detail=det)
    ctx.observe("heat.bc", "Hutchens2", float(np.max(np.abs(topv - kw["TL"]))) <= 1e-6 * amp, branch="T(z=L)=TL", measure=float(np.max(np.abs(topv - kw["TL"]))) / amp, tol=1e-6, detail=det)


# ---- cylindrical sandwich ----------------------------------------------------------------------------------------------------
def gen_cs(rng, i, tier):
    kw = C.CAT["CylindricalSandwich"]["gen"](rng, None)
    return dict(kw=kw, rf=uni(rng, 0.25, 0.75), thf=uni(rng, 0.25, 0.75), tf=logu(rng, 0.01, 0.1))


def run_cs(ctx, p):
    from exactpack.solvers.heat.cylindrical_sandwich import CylindricalSandwich
    kw = dict(p["kw"])
    s = ctx.make(CylindricalSandwich, **kw)
    a, b, kap, T1 = kw["a"], kw["b"], kw["kappa"], kw["T1"]
    T0 = float(s.T0)
    t = p["tf"] * (b - a) ** 2 / kap
    r0 = a + p["rf"] * (b - a)
    th0 = p["thf"] * math.pi / 2
    hr, hth, ht = 4e-2 * (b - a), 4e-2, 4e-2 * t
    rr = np.concatenate([r0 + OFF9 * hr / 2, np.full(9, r0)])
    tt = np.concatenate([np.full(9, th0), th0 + OFF9 * hth / 2])
    V = Tcomp(ctx, s, rr, tt, t)
    Rr, Th = V[:9], V[9:]
    Tm = np.array([Tcomp(ctx, s, [r0], [th0], t + k * ht / 2)[0] if k != 0 else Rr[4] for k in OFF9])
    _, Tr1, e1, Trr, e2 = derivs9(Rr, hr)
    _, _, _, Tthth, e3 = derivs9(Th, hth)
    _, Tt1, e4, _, _ = derivs9(Tm, ht)
    det = dict(kw=kw, t=t, r=r0, theta=th0)
    ok, res, sc = residual([Tt1, -kap * Trr, -kap * Tr1 / r0, -kap * Tthth / r0 ** 2], [e4, kap * e2, kap * e1 / r0, kap * e3 / r0 ** 2], tol=1e-2)
    ctx.observe("heat.pde", "CylindricalSandwich", ok, branch="interior", measure=res, tol=1e-2, detail=det)
    rs = np.array([a + 0.3 * (b - a), a + 0.7 * (b - a)])
    v0 = Tcomp(ctx, s, rs, np.zeros(2), t)
    v1 = Tcomp(ctx, s, rs, np.full(2, math.pi / 2), t)
    ctx.observe("heat.bc", "CylindricalSandwich", float(np.max(np.abs(v0 - T0))) <= 1e-6 * max(abs(T1), 1), branch="T(theta=0)=T0", measure=float(np.max(np.abs(v0 - T0))), tol=1e-6, detail=det)
    ctx.observe("heat.bc", "CylindricalSandwich", float(np.max(np.abs(v1 - (T0 + T1)))) <= 1e-6 * max(abs(T1), 1), branch="T(theta=pi/2)=T0+T1 (static solution's value)", measure=float(np.max(np.abs(v1 - (T0 + T1)))), tol=1e-6, detail=det)
    ti = 1e-5 * (b - a) ** 2 / kap
    ic = Tcomp(ctx, s, [r0], [th0], ti)[0]
    ctx.observe("heat.ic", "CylindricalSandwich", abs(ic) <= 0.05 * abs(T1), branch="T(t->0)=0", measure=abs(ic) / abs(T1), tol=0.05, detail=dict(det, got=float(ic)))
    tinf = 50 * (b - a) ** 2 / kap
    lim = Tcomp(ctx, s, [r0], [th0], tinf)[0]
    want = T0 + 2 * T1 * th0 / math.pi
    ctx.observe("heat.limit", "CylindricalSandwich", abs(lim - want) <= 1e-6 * max(abs(T1), 1), branch="t->inf static", measure=abs(lim - want), tol=1e-6, detail=det)


UNITS = [
    Unit("rod", gen_rod, run_rod, quick=240, thorough=4800, min_nontrivial=800),
    Unit("rectangle", gen_rect, run_rect, quick=16, thorough=160, min_nontrivial=60),
    Unit("hutchens1", gen_h1, run_h1, quick=40, thorough=800, min_nontrivial=100),
    Unit("hutchens2", gen_h2, run_h2, quick=24, thorough=240, min_nontrivial=60),
    Unit("cylsandwich", gen_cs, run_cs, quick=8, thorough=48, min_nontrivial=20),
]

"""C05 - every solver honours the uniform call/return contract of the ExactPack API.

Online (icontract postcondition on ExactSolver.__call__, every call of the workload):
  api.count      exactly N records for N points
  api.positions  the first 1/2/3 field(s) are bit-equal to the points as passed (snapshot taken
                 before the call), in the order given
  api.input      the caller's array is unchanged by the call
  api.names      dtype.names use the standard names of exactpack.base (no alias of a standard
                 quantity), are unique, position field(s) first
Driver (per class, catalogue parameters):
  api.container  list / tuple / ndarray / non-contiguous view / Fortran-ordered copy give bit-equal
                 results; permuted and duplicated points give permuted/duplicated records
                 (also: integer-valued positions given as integers; one ndarray re-filled in place between two calls)
  api.order      record k of a permuted+duplicated request carries the values of point k (compared with the records of
                 the original request; the permutation is never an involution)
  api.csv        dump() then csv + float(): every value reproduced exactly (NaN as NaN, strings as str)
  api.ctor       unknown keyword -> ValueError; a parameter without default omitted -> ValueError
"""
import csv
import math
import os
import tempfile

import numpy as np

from ..core import Unit, Skip, SolverRaised, choice
from .. import boundary
from .. import catalogue as C

RULE = ("every public solver class found by walking exactpack.solvers (120 on the pinned tree), built "
        "with random admissible catalogue parameters; N in {1,2,3,17,1000} where the class allows it, "
        "sorted/unsorted/duplicated points, five container types.  distinct = (monitor, class, branch, "
        "case); every monitor evaluation is non-trivial (exact comparisons).")
ASSUME = ["standard field names = the table in exactpack/base.py; the alias list in rtm/props/c05.py decides "
          "what counts as a non-standard name for a standard quantity",
          "classes that need a structured grid (RateStick, ExplosiveArc, Mader) are called with such a grid"]

STANDARD = {"density", "pressure", "specific_internal_energy", "velocity", "position", "position_x",
            "position_y", "position_z"}
ALIASES = {"rho", "dens", "den", "rho_x", "pres", "press", "p", "sie", "energy", "internal_energy", "e", "ener",
           "vel", "u", "x", "r", "radius", "pos", "x_position", "y_position", "z_position", "xpos", "ypos", "xs"}
N_POS = {"1d": 1, "rows2": 2, "rows3": 3, "comp2": 2}


def npos(entry, geom):
    lay = C.CAT[entry]["layout"]
    return geom if lay == "rowsg" else N_POS[lay]


def columns(entry, pts, geom):
    lay = C.CAT[entry]["layout"]
    a = np.asarray(pts)
    if lay == "1d":
        return [a]
    if lay == "comp2":
        return [a[0], a[1]]
    return [a[:, k] for k in range(a.shape[1])]


_entry_of = {}


def entry_for_instance(s):
    q = type(s).__module__.replace("exactpack.solvers.", "") + ":" + type(s).__name__
    if q not in _entry_of:
        _entry_of[q] = C.general_entry_for(q, type(s))[0]
    return _entry_of[q]


def api_monitor(ctx, s, before, after, t, sol):
    name = type(s).__name__
    ent = entry_for_instance(s)
    if ent is None or before is None:
        ctx.count("api_monitor_uncatalogued:" + name)
        return
    geom = getattr(s, "geometry", None)
    try:
        cols = columns(ent, before, geom)
    except Exception:
        ctx.count("api_monitor_points_layout_unexpected:" + name)
        return
    n = len(cols[0])
    ctx.observe("api.count", name, len(sol) == n, measure=len(sol), detail=dict(points=n, records=len(sol)))
    names = sol.dtype.names
    k = len(cols)
    ok = len(names) >= k and len(sol) == n
    if ok:
        for j in range(k):
            got = np.asarray(sol[names[j]])
            want = cols[j]
            same = got.shape == want.shape and bool(np.all((got == want) | (np.isnan(got.astype(float)) & np.isnan(want.astype(float)))))
            ok = ok and same
    ctx.observe("api.positions", name, ok, detail=dict(names=list(names[:4]), n=n))
    # caller's array untouched
    aft = np.asarray(after)
    same = aft.shape == before.shape and bool(np.all((aft == before) | ((aft != aft) & (before != before))))
    ctx.observe("api.input", name, same, detail=dict(n=n))
    bad = [x for x in names if x in ALIASES]
    # 1-D problems: the generic position variable is called 'position'; for 2-D/3-D layouts a
    # coordinate without a standard name (an angle) is acceptable as long as it is no alias
    posfirst = (names[0] == "position") if k == 1 else True
    ctx.observe("api.names", name, not bad and len(set(names)) == len(names) and posfirst,
                detail=dict(names=list(names), aliases=bad, positions_first=posfirst))


def setup(ctx):
    boundary.install(ctx, [api_monitor])


_all = {}


def classes():
    if not _all:
        for q, cls in sorted(C.discover().items()):
            _all[q] = (cls, C.general_entry_for(q, cls)[0])
    return _all


def gen(rng, i, tier):
    return dict(slot=i, seed=int(rng.integers(2 ** 31)))


def same_records(a, b):
    if a.dtype.names != b.dtype.names or len(a) != len(b):
        return False
    for n in a.dtype.names:
        x, y = np.asarray(a[n]), np.asarray(b[n])
        if x.dtype.kind in "fc":
            if not np.all((x == y) | (np.isnan(x) & np.isnan(y))):
                return False
        elif not np.all(x == y):
            return False
    return True


def take(entry, pts, idx):
    lay = C.CAT[entry]["layout"]
    a = np.asarray(pts)
    return a[:, idx] if lay == "comp2" else a[idx]


def to_list(entry, pts):
    lay = C.CAT[entry]["layout"]
    a = np.asarray(pts)
    if lay == "1d":
        return [float(v) for v in a]
    return [[float(v) for v in row] for row in a]


def run(ctx, p):
    cl = classes()
    keys = sorted(cl)
    q = p.get("qname") or keys[p["slot"] % len(keys)]
    rep = p["slot"] // len(keys)
    if q not in cl:
        raise Skip("class_not_present")
    cls, ent = cl[q]
    name = cls.__name__
    if ent is None:
        ctx.count("uncatalogued:" + q)
        raise Skip("uncatalogued")
    e = C.CAT[ent]
    if e["cost"] > 5 and rep > 0 and not ctx.thorough():
        raise Skip("costly_class_once_per_quick_run")
    if e["cost"] >= 1 and rep % 3 != 0:
        raise Skip("costly_class_thinned")
    rng = np.random.default_rng(p["seed"])
    sizes = [1, 2, 3, 17, 1000]
    n = sizes[rep % len(sizes)]
    if e["grid"] or e["cost"] >= 1:
        n = min(max(n, e["minpts"]), 17 if not e["grid"] else 10 ** 9)
    n = max(n, e["minpts"])
    if name in ("SuOlson", "CylindricalSandwich"):
        n = min(n, 4)
    d = C.draw(ctx, cls, ent, rng, n=n)
    if d is None:
        raise Skip("no_admissible_draw")
    s, pts, t, sol = d["solver"], d["points"], d["t"], d["sol"]
    lay = e["layout"]
    cheap = e["cost"] < 1
    # ---- containers -------------------------------------------------------------------------
    a = np.asarray(pts, dtype=float)
    variants = {"list": to_list(ent, a), "tuple": tuple(tuple(r) if isinstance(r, list) else r for r in to_list(ent, a))}
    if cheap or rep == 0:
        big = np.zeros(tuple(2 * d_ for d_ in a.shape))
        view = big[::2] if a.ndim == 1 else big[::2, ::2]
        view[...] = a
        variants["non-contiguous view"] = view
        if a.ndim == 2:
            variants["fortran order"] = np.asfortranarray(a)
        variants["float32-free ndarray copy"] = np.array(a, copy=True)
    for label, v in variants.items():
        try:
            other = ctx.call(s, v, t)
        except SolverRaised as ex:
            ctx.observe("api.container", name, False, branch=label, detail=dict(raised=str(ex)[:200], n=len(sol)))
            continue
        ctx.observe("api.container", name, same_records(sol, other), branch=label,
                    detail=dict(n=len(sol), names=list(sol.dtype.names)))
    # ---- times outside the domain (t = 0, t < 0): whatever a solver answers there - NaN, zeros, an exception - a call that
    #      returns is still a call: N records, the positions as passed, the caller's array untouched (online monitors)
    if rep % 2 == 0:
        for tq in (0.0, -1.0):
            try:
                ctx.call(s, np.array(a, copy=True), tq)
                ctx.count("calls_at_t<=0_answered")
            except SolverRaised:
                ctx.count("calls_at_t<=0_refused")
    # ---- an integer-valued scalar parameter given as a Python int: 1 and 1.0 are the same parameter value -----------------
    if cheap and e["build"] is None and rep % 3 != 1:
        cand = [k for k, v in sorted(d["passed"].items()) if isinstance(v, float) and k != "geometry" and abs(v) >= 0.5 and abs(v) < 1e6]
        rng_i = np.random.default_rng(p["seed"] + 7)
        rng_i.shuffle(cand)
        for k in cand[:4]:
            vi = int(round(d["passed"][k]))
            if vi == 0:
                continue
            try:
                s_f = ctx.make(cls, **dict(d["passed"], **{k: float(vi)}))
                r_f = ctx.call(s_f, np.array(a, copy=True), t)
            except SolverRaised:
                continue                         # the rounded value is not admissible for this class: not a case
            try:
                s_i = ctx.make(cls, **dict(d["passed"], **{k: vi}))
                r_i = ctx.call(s_i, np.array(a, copy=True), t)
                ctx.observe("api.ctor", name, same_records(r_f, r_i), branch="integer-typed parameter value (%s given as int)" % k,
                            detail=dict(parameter=k, value=vi, n=len(sol)))
            except SolverRaised as ex:
                ctx.observe("api.ctor", name, False, branch="integer-typed parameter value (%s given as int)" % k,
                            detail=dict(parameter=k, value=vi, raised=str(ex)[:160]))
    # ---- one ndarray object, re-filled in place between two calls (a host code's coordinate buffer) --------------------------
    # the second call must answer for the values the array holds *now*: compared with a call on a fresh copy
    if cheap and not e["grid"] and len(sol) >= 2:
        buf = np.array(a, copy=True)
        try:
            ctx.call(s, buf, t)
            new = take(ent, a, np.arange(len(sol))[::-1]) if len(sol) > 2 else take(ent, a, np.array([1, 0]))
            buf[...] = new                                   # same object, other contents (the points in reverse order)
            R2 = ctx.call(s, buf, t)
            ref = ctx.call(s, np.array(new, copy=True), t)
            ctx.observe("api.container", name, same_records(ref, R2), branch="ndarray re-filled in place between two calls",
                        detail=dict(n=len(sol), t=t, params={k: v for k, v in d["passed"].items() if isinstance(v, (int, float, str))}))
        except SolverRaised as ex:
            ctx.count("refilled_buffer_case_raised:" + name)
    # ---- integer-valued positions: [0, 1, 2] and [0., 1., 2.] are the same points --------------------------------------
    # (whatever the float request returns - values, NaN outside the domain - the integer request must return as well; a
    #  request the solver refuses in both forms is skipped)
    if cheap and rep % 3 != 1:
        q = np.unique(np.round(a), axis=(1 if lay == "comp2" and a.ndim == 2 else 0)) if a.ndim == 2 else np.unique(np.round(a))
        if a.ndim == 1 and len(q) < 3:
            q = np.unique(np.concatenate([q, [np.floor(a.min()), np.ceil(a.max()), np.ceil(a.max()) + 1.0]]))
        nq = q.shape[1] if (lay == "comp2" and q.ndim == 2) else len(q)
        if nq >= max(1, e["minpts"]) and np.all(np.abs(q) < 2 ** 31):
            try:
                Fq = ctx.call(s, q.astype(float), t)
            except SolverRaised:
                Fq = None
                ctx.count("integer_valued_request_refused_as_float:" + name)
            if Fq is not None:
                for label, qi in (("int64 ndarray", q.astype(np.int64)), ("list of int", q.astype(np.int64).tolist())):
                    try:
                        Iq = ctx.call(s, qi, t)
                    except SolverRaised as ex:
                        ctx.observe("api.container", name, False, branch="integer-valued positions as " + label, detail=dict(raised=str(ex)[:200], points=q.tolist()[:6], t=t))
                        continue
                    worst, wf = 0.0, None
                    okn = len(Iq) == len(Fq) and Iq.dtype.names == Fq.dtype.names
                    if okn:
                        for f in Fq.dtype.names:
                            if Fq[f].dtype.kind not in "fiu":
                                continue
                            x, y = np.asarray(Fq[f], float), np.asarray(Iq[f], float)
                            sc = np.maximum(np.abs(x), np.abs(y))
                            with np.errstate(all="ignore"):
                                dd = np.abs(x - y) / np.where((sc > 0) & np.isfinite(sc), sc, 1.0)
                            dd = np.where((x == y) | (np.isnan(x) & np.isnan(y)), 0.0, dd)      # equal infinities included
                            dd = np.where(np.isnan(dd), np.inf, dd)
                            if dd.size and float(dd.max()) > worst:
                                worst, wf = float(dd.max()), f
                    ctx.observe("api.container", name, okn and worst <= 1e-12, branch="integer-valued positions as " + label, measure=worst, tol=1e-12,
                                detail=dict(field=wf, points=q.tolist()[:6], t=t, params={k: v for k, v in d["passed"].items() if isinstance(v, (int, float, str))}))
    # ---- a whole-number time given as int / numpy integer / numpy float: 2 and 2.0 are the same time --------------------
    # (whatever the float call returns - values, NaN outside the domain - the others must return as well)
    if cheap and rep % 3 == 1:
        ti = float(max(1, round(t)))
        try:
            Ft = ctx.call(s, np.array(a, copy=True), ti)
        except SolverRaised:
            Ft = None
            ctx.count("whole_number_time_refused_as_float:" + name)
        if Ft is not None:
            for label, tv in (("int", int(ti)), ("numpy.int64", np.int64(ti)), ("numpy.float64", np.float64(ti))):
                try:
                    It = ctx.call(s, np.array(a, copy=True), tv)
                except SolverRaised as ex:
                    ctx.observe("api.container", name, False, branch="whole-number time given as " + label, detail=dict(raised=str(ex)[:200], t=ti))
                    continue
                worst, wf = 0.0, None
                okn = len(It) == len(Ft) and It.dtype.names == Ft.dtype.names
                if okn:
                    for f in Ft.dtype.names:
                        if Ft[f].dtype.kind not in "fiu":
                            continue
                        x, y = np.asarray(Ft[f], float), np.asarray(It[f], float)
                        sc = np.maximum(np.abs(x), np.abs(y))
                        with np.errstate(all="ignore"):
                            dd = np.abs(x - y) / np.where((sc > 0) & np.isfinite(sc), sc, 1.0)
                        dd = np.where((x == y) | (np.isnan(x) & np.isnan(y)), 0.0, dd)
                        dd = np.where(np.isnan(dd), np.inf, dd)
                        if dd.size and float(dd.max()) > worst:
                            worst, wf = float(dd.max()), f
                ctx.observe("api.container", name, okn and worst <= 1e-12, branch="whole-number time given as " + label, measure=worst, tol=1e-12,
                            detail=dict(field=wf, t=ti, params={k: v for k, v in d["passed"].items() if isinstance(v, (int, float, str))}))
    # ---- order: permutation and duplicates (not for solvers whose grid is the point set) ---------------
    m = len(sol)
    if not e["grid"] and m >= 2 and cheap:
        perm = rng.permutation(m)
        for _ in range(20):          # not an involution: applying the permutation twice must not look like undoing it
            if m < 3 or not np.array_equal(perm[perm], np.arange(m)):
                break
            perm = rng.permutation(m)
        dup = np.concatenate([perm, perm[: max(1, m // 3)]])
        if rep % 2 == 0 and m >= 3:
            dup = perm                     # every other repetition: a pure permutation, no repeated point
        try:
            o2 = ctx.call(s, take(ent, a, dup), t)
            # record k of the permuted call carries the positions of point dup[k] (values: C06's subject)
            cols = columns(ent, take(ent, a, dup), d["geom"])
            ok = len(o2) == len(dup) and all(np.array_equal(np.asarray(o2[o2.dtype.names[j]]), cols[j]) for j in range(len(cols)))
            ctx.observe("api.container", name, ok, branch="permuted+duplicated points keep their order",
                        detail=dict(n=len(dup)))
            # ... and the values of the point it was asked for: record k == record dup[k] of the first call (1e-10:
            # iterative point solvers warm-start from the previous point; exactness of values is C06's subject)
            if len(o2) == len(dup):
                worst, wf = 0.0, None
                for f in sol.dtype.names:
                    if sol[f].dtype.kind != "f":
                        continue
                    x, y = np.asarray(sol[f], float)[dup], np.asarray(o2[f], float)
                    sc = np.maximum(np.abs(x), np.abs(y))
                    dd = np.abs(x - y) / np.where(sc > 0, sc, 1.0)
                    dd = np.where(np.isnan(x) & np.isnan(y), 0.0, dd)
                    dd = np.where(np.isnan(dd), np.inf, dd)
                    if dd.size and float(dd.max()) > worst:
                        worst, wf = float(dd.max()), f
                ctx.observe("api.order", name, worst <= 1e-10, branch="record k of a permuted+duplicated request is the record of point k", measure=worst, tol=1e-10,
                            detail=dict(n=len(dup), field=wf, order=dup.tolist(), t=t, params={k: v for k, v in d["passed"].items() if isinstance(v, (int, float, str))}))
        except SolverRaised as ex:
            ctx.observe("api.container", name, False, branch="permuted+duplicated points keep their order",
                        detail=dict(raised=str(ex)[:200]))
    # ---- CSV round trip ---------------------------------------------------------------------------
    fd, path = tempfile.mkstemp(suffix=".csv", prefix="rtm_c05_")
    os.close(fd)
    try:
        sol.dump(path)
        with open(path, newline="") as fh:
            rows = list(csv.reader(fh))
        ok = rows[0] == list(sol.dtype.names) and len(rows) == len(sol) + 1
        badcell = None
        if ok:
            for i, row in enumerate(rows[1:]):
                for nme, cell in zip(sol.dtype.names, row):
                    val = sol[nme][i]
                    if np.asarray(val).dtype.kind in "fiu":
                        back = float(cell)
                        if not (back == float(val) or (math.isnan(back) and math.isnan(float(val)))):
                            ok, badcell = False, (i, nme, cell, repr(val))
                    elif str(val) != cell and not (val is None and cell == ""):
                        ok, badcell = False, (i, nme, cell, repr(val))
                if not ok:
                    break
        ctx.observe("api.csv", name, ok, detail=dict(n=len(sol), bad=badcell, header=rows[0] if rows else None))
    finally:
        os.remove(path)
    # ---- constructor contract ---------------------------------------------------------------------
    if e["build"] is None and rep % 2 == 0:
        passed = dict(d["passed"])
        try:
            ctx.make(cls, **dict(passed, not_a_parameter_xyz=1.0))
            ctx.observe("api.ctor", name, False, branch="unknown keyword", detail=dict(outcome="accepted"))
        except SolverRaised as ex:
            ctx.observe("api.ctor", name, isinstance(ex.exc, ValueError), branch="unknown keyword",
                        detail=dict(raised=type(ex.exc).__name__))
        nodef = [k for k in cls.parameters if not hasattr(cls, k)]
        if name == "Blake":
            nodef = []      # "exactly two of six" is C15/C20's subject
        for k in nodef:
            kw = {x: v for x, v in passed.items() if x != k}
            try:
                ctx.make(cls, **kw)
                ctx.observe("api.ctor", name, False, branch="missing " + k, detail=dict(outcome="accepted"))
            except SolverRaised as ex:
                ctx.observe("api.ctor", name, isinstance(ex.exc, ValueError), branch="missing " + k,
                            detail=dict(raised=type(ex.exc).__name__))
    elif e["build"] is not None and rep % 2 == 0:
        from .c16 import make_eos
        eos = make_eos("ideal", dict(gamma=1.4))
        try:
            ctx.make(cls, eos, not_a_parameter_xyz=1.0)
            ctx.observe("api.ctor", name, False, branch="unknown keyword", detail=dict(outcome="accepted"))
        except SolverRaised as ex:
            ctx.observe("api.ctor", name, isinstance(ex.exc, ValueError), branch="unknown keyword",
                        detail=dict(raised=type(ex.exc).__name__))


def reach(tot, tier):
    seen = set(k.split("|")[1] for k in tot["stats"] if k.startswith("api.count|"))
    try:
        import exactpack  # noqa: F401
        want = set(c.__name__ for c, e in classes().values())
    except Exception:
        return []
    missing = sorted(want - seen - {"PlanarCog12", "PlanarCog14"})
    out = []
    if missing:
        out.append("API contract never evaluated for classes: %s" % ", ".join(missing[:12]))
    return out


MON_ID = "C05"


# ---- the repository's own test-suite as a workload under the boundary monitors (thorough tier) --------------------------
def gen_suite(rng, i, tier):
    return dict(which=MON_ID)


def run_suite(ctx, p):
    import glob
    import json
    import os
    import shutil
    import subprocess
    import sys
    import tempfile
    from ..core import VERIF
    if p.get("test"):
        tests = [p["test"]]
    else:
        tests = ["exactpack/tests"]
    repo = os.environ.get("EXACTPACK_REPO", "/repo")
    out = tempfile.mkdtemp(prefix="rtm_suite_")
    env = dict(os.environ, EXACTPACK_VERIF="1", RTM_SUITE_OUT=out, RTM_SUITE_MONITORS=MON_ID, MPLBACKEND="Agg")
    try:
        cmd = [sys.executable, "-m", "pytest", "-q", "-p", "no:cacheprovider", "-p", "rtm.pytest_plugin", "--timeout=900", "-n", "8"] + tests
        pr = subprocess.run(cmd, cwd=repo, env=env, capture_output=True, text=True, timeout=5400)
        tail = pr.stdout.strip().split("\n")[-1] if pr.stdout.strip() else ""
        ctx.count("suite_pytest_exit_%s" % pr.returncode)
        n = 0
        for f in glob.glob(os.path.join(out, "suite_*.json")):
            with open(f) as fh:
                d = json.load(fh)
            n += d.get("boundary_events", 0)
            ctx.absorb(d, unit="suite")
        ctx.count("suite_boundary_events", n)
        if n == 0:
            raise Skip("suite_replay_observed_nothing: " + tail[:80])
    finally:
        shutil.rmtree(out, ignore_errors=True)


UNITS = [
    Unit("class", gen, run, quick=3 * 120, thorough=30 * 120, min_nontrivial=1000),
    Unit("suite", gen_suite, run_suite, quick=0, thorough=1, min_nontrivial=100),
]

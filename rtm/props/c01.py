"""C01 - returned fields satisfy the documented governing PDEs wherever smooth.

For a probe (r0, t0) in a smooth region the public solver is called on a 9-point stencil in r
(one call) and on a 9-point stencil in t (eight more calls); first and second derivatives come
from 4th-order differences at steps h and h/2 with a Richardson error bar (rtm.oracles), and the
normalised residual |sum T_i| / sum |T_i| of each balance law is compared with the tolerance of
the solver's accuracy class.  Equations (k = geometry - 1):

  mass      rho_t + u rho_r + rho u_r + k rho u / r                       = 0
  momentum  u_t + u u_r + p_r / rho                                      = 0
  energy    e_t + u e_r + (p/rho)(u_r + k u/r) + (F_r + k F/r)/rho       = 0
            F = -(4 c a lambda0 / 3) rho^alpha T^(beta+3) T_r   (Coggeshall 8-18; F = 0 otherwise)

with p, e the returned pressure and specific internal energy (that they are the documented
functions of rho and T is C03's subject).  c = 2.997e10, a = 137.20 as hard-wired in the solvers.
Guderley is differentiated with respect to Lazarus time t_L = t/0.750024322 - 1, as ramsey.py
documents that its fields are expressed in.
"""
import math

import numpy as np

from ..core import Unit, Skip, SolverRaised, logu, uni, choice
from ..oracles import derivs9, OFF9, residual
from .. import catalogue as C
from .. import riemann_common as RC

RULE = ("per problem: random admissible catalogue parameters (all geometries, non-default gamma, exponents, "
        "coefficients), probes log-uniform in (r,t) inside the validity interval and inside one smooth region "
        "(region label identical over the whole stencil): both sides of the shock for Noh/Cog19-21, EHEP regions "
        "I-V, fans of both Riemann solvers, Sedov interior on node-aligned radii, Guderley before and after "
        "reflection.  distinct = (equation, class, region/geometry, case); non-trivial = sum|T_i| above the floor "
        "(not a constant state).")
ASSUME = ["finite differences (4th order, Richardson error bars); a probe whose error bar exceeds 1e-2 of the "
          "term scale is inconclusive, never held or violated",
          "Coggeshall energy equation with the physically consistent prefactor Gamma/(gamma-1) (the docstring's "
          "'T/(gamma-1)' is a typo) and radiation constants as hard-wired in the solvers",
          "Guderley: public time argument is Caramana-Whalen time, fields are in Lazarus time (documented)"]

CLIGHT, ARAD = 2.997e10, 1.3720e+02
FACTOR_C = 0.750024322


def cog_flux_params(fam, s, geom):
    """(alpha, beta, lambda0) of the conduction term of a Coggeshall solution, or None (no conduction)"""
    k = geom - 1.0
    g = getattr(s, "gamma", None)
    if fam in ("Cog8", "Cog9", "Cog18"):
        return s.alpha, s.beta, None
    if fam == "Cog10":
        return s.beta + 4.0 - 1.0 / k, s.beta, s.lambda0
    if fam == "Cog11":
        return s.beta + 4.0 + (k - 1.0) / (2.0 - (g - 1.0) * (k + 1.0)), s.beta, None
    if fam == "Cog12":
        return (s.beta + 4.0) * (1.0 - g) + (k - 1.0) * (g + 1.0) / (2.0 * k), s.beta, None
    if fam in ("Cog13", "Cog14", "Cog17"):
        return s.alpha, s.beta, s.lambda0
    if fam == "Cog16":
        al = 1.0 - 1.0 / k
        return al, al / 2.0 - 3.0, s.lambda0
    return None


def stencil(ctx, s, r0, t0, hr, ht, fields, rcall=None, tfac=1.0):
    """values of `fields` on the r-stencil (at t0) and on the t-stencil (at r0).
    Returns (R, T, labels): R[name] (9,), T[name] (9,), labels list of region labels (or None)."""
    rr = r0 + OFF9 * hr / 2.0
    call = rcall or (lambda pts, tt: ctx.call(s, pts, tt))
    solr = call(rr, t0)
    R = {f: np.array(solr[f], dtype=float) for f in fields}
    T = {f: np.zeros(9) for f in fields}
    labels = [region_labels(solr)]
    for j, k in enumerate(OFF9):
        if k == 0:
            for f in fields:
                T[f][j] = R[f][4]
            continue
        st = call(np.array([r0]), t0 + k * ht / 2.0)
        labels.append(region_labels(st))
        for f in fields:
            T[f][j] = float(st[f][0])
    return R, T, labels


def region_labels(sol):
    names = sol.dtype.names
    if "region" in names:
        return tuple(str(x) for x in sol["region"])
    if "pressure" in names:
        return tuple(bool(x > 0) for x in np.asarray(sol["pressure"], dtype=float))
    return None


def one_region(labels):
    flat = [x for lab in labels if lab is not None for x in lab]
    return len(set(flat)) <= 1, (flat[0] if flat else None)


def euler_probe(ctx, name, branch, R, T, r0, hr, ht, k, flux=None, tol=1e-6, tfac=1.0, detail=None, eqs=("mass", "momentum", "energy")):
    """evaluate the three balance laws; tfac multiplies time derivatives (change of time variable)."""
    rho, rho_r, e_rho_r, _, _ = derivs9(R["density"], hr)
    u, u_r, e_u_r, _, _ = derivs9(R["velocity"], hr)
    p, p_r, e_p_r, _, _ = derivs9(R["pressure"], hr)
    e, e_r, e_e_r, _, _ = derivs9(R["specific_internal_energy"], hr)
    _, rho_t, e_rho_t, _, _ = derivs9(T["density"], ht)
    _, u_t, e_u_t, _, _ = derivs9(T["velocity"], ht)
    _, e_t, e_e_t, _, _ = derivs9(T["specific_internal_energy"], ht)
    rho_t, u_t, e_t = tfac * rho_t, tfac * u_t, tfac * e_t
    e_rho_t, e_u_t, e_e_t = tfac * e_rho_t, tfac * e_u_t, tfac * e_e_t
    det = dict(detail or {})
    det.update(r=float(r0), rho=float(rho), u=float(u), p=float(p), e=float(e))
    out = {}
    if not all(math.isfinite(float(x)) for x in (rho, u, p, e, rho_r, u_r, p_r, e_r, rho_t, u_t, e_t)) or rho <= 0:
        ctx.count("probe_nonfinite_or_vacuum:" + name)
        return
    terms = {
        "mass": ([rho_t, u * rho_r, rho * u_r, k * rho * u / r0],
                 [e_rho_t, abs(u) * e_rho_r, rho * e_u_r]),
        "momentum": ([u_t, u * u_r, p_r / rho],
                     [e_u_t, abs(u) * e_u_r, e_p_r / rho]),
        "energy": ([e_t, u * e_r, (p / rho) * u_r, (p / rho) * k * u / r0],
                   [e_e_t, abs(u) * e_e_r, (p / rho) * e_u_r]),
    }
    if flux is not None:
        al, be, K = flux
        Tm, T_r, e_T_r, T_rr, e_T_rr = derivs9(R["temperature"], hr)
        if Tm > 0:
            F = -K * rho ** al * Tm ** (be + 3) * T_r
            F_r = -K * (al * rho ** (al - 1) * rho_r * Tm ** (be + 3) * T_r
                        + (be + 3) * rho ** al * Tm ** (be + 2) * T_r ** 2
                        + rho ** al * Tm ** (be + 3) * T_rr)
            eF_r = abs(K) * (abs(al) * rho ** (al - 1) * Tm ** (be + 3) * (abs(T_r) * e_rho_r + abs(rho_r) * e_T_r)
                             + (be + 3) * rho ** al * Tm ** (be + 2) * 2 * abs(T_r) * e_T_r
                             + rho ** al * Tm ** (be + 3) * e_T_rr)
            eF = abs(K) * rho ** al * Tm ** (be + 3) * e_T_r
            terms["energy"][0].extend([F_r / rho, k * F / (r0 * rho)])
            terms["energy"][1].extend([eF_r / rho, k * eF / (r0 * rho)])
            det.update(F=float(F), K=float(K), alpha=float(al), beta=float(be))
    # natural size of each balance law at this point: below 1e-9 of it every term is round-off and the
    # equation reads 0 = 0 (constant states, analytically vanishing gradients): trivial, not inconclusive
    v = max(abs(u), math.sqrt(abs(p / rho)), math.sqrt(abs(e)))
    ell = max(abs(r0), 1e-300) if k > 0 else max(abs(hr) / 2e-3, 1e-300)
    natural = {"mass": rho * v / ell, "momentum": v * v / ell, "energy": v ** 3 / ell}
    for eq in eqs:
        tt, ee = terms[eq]
        scale0 = sum(abs(float(x)) for x in tt)
        if scale0 <= 1e-9 * natural[eq]:
            ctx.observe("pde." + eq, name, True, branch=branch, measure=0.0, tol=tol,
                        detail=dict(det, terms=[float(x) for x in tt], note="all terms vanish"), nontrivial=False)
            out[eq] = (True, 0.0)
            continue
        ok, res, scale = residual(tt, ee, tol=tol)
        ctx.observe("pde." + eq, name, ok, branch=branch, measure=res, tol=tol,
                    detail=dict(det, terms=[float(x) for x in tt]), nontrivial=True)
        out[eq] = (ok, res)
    return out


# ---- Coggeshall + Noh family (closed forms through the catalogue) -----------------------------------------------
COG_GENERAL = ["Cog%d" % i for i in (1, 2, 3, 4, 5, 6, 7, 8, 9, 10, 11, 12, 13, 14, 16, 17, 18, 19, 20, 21)]
CLOSED = COG_GENERAL + ["Noh", "Noh2", "Noh2Cog"]


def gen_closed(rng, i, tier):
    return dict(entry=CLOSED[i % len(CLOSED)], seed=int(rng.integers(2 ** 31)), ints=bool((i // len(CLOSED)) % 3 == 2))


def run_closed(ctx, p):
    ent = p["entry"]
    e = C.CAT[ent]
    cls = C.load(e["path"])
    rng = np.random.default_rng(p["seed"])
    # every third repetition of a class: all its scale parameters are whole numbers given as Python ints
    rate, C.INT_RATE = C.INT_RATE, (1.0 if p.get("ints") else C.INT_RATE)
    try:
        d = C.draw(ctx, cls, ent, rng, n=4)
    finally:
        C.INT_RATE = rate
    if d is None:
        raise Skip("no_admissible_draw")
    s, geom, t0, kw = d["solver"], d["geom"], d["t"], d["full"]
    geom = geom if geom is not None else getattr(s, "geometry", 3)
    if ent == "Cog5":
        geom = 3
    if ent == "Cog21":
        geom = 3
    k = geom - 1.0
    fam = ent
    fields = ["density", "velocity", "pressure", "specific_internal_energy"]
    flux = None
    fp = cog_flux_params(fam, s, geom) if fam.startswith("Cog") else None
    if fp is not None:
        fields.append("temperature")
    # time step limited by the validity interval
    tlim = abs(t0)
    if "tau" in kw:
        tlim = min(tlim, kw["tau"] - abs(t0))
    if ent in ("Noh2", "Noh2Cog"):
        tlim = min(abs(t0) if t0 != 0 else 1.0, 1.0 - t0)
    if ent == "Cog20" and kw["a"] > 0:
        tlim = min(tlim, 0.5 / kw["a"] - t0)
    ht = 2e-3 * max(tlim, 1e-6)
    for r0 in d["points"]:
        r0 = float(r0)
        hr = 2e-3 * r0
        if ent == "Cog7":
            f = math.sqrt(1 - (t0 / kw["tau"]) ** 2)
            hr = min(hr, 0.2 * (r0 - kw["Ri"] * f), 0.2 * (kw["R0"] * f - r0))
            if hr <= 0:
                continue
        try:
            R, T, labels = stencil(ctx, s, r0, t0, hr, ht, fields)
        except SolverRaised:
            ctx.count("stencil_raised:" + ent)
            continue
        same, lab = one_region(labels)
        if not same:
            ctx.count("stencil_straddles_front:" + ent)
            continue
        if fp is not None:
            al, be, lam0 = fp
            if lam0 is None:
                # divergence-free flux by construction: pick lambda0 so that |F/(r rho)| is comparable with
                # the hydrodynamic terms (sensitive both to a non-vanishing divergence and to the hydro part)
                rho, Tm = R["density"][4], R["temperature"][4]
                _, T_r, _, _, _ = derivs9(R["temperature"], hr)
                _, u_r, _, _, _ = derivs9(R["velocity"], hr)
                hyd = abs(R["pressure"][4] / rho) * (abs(u_r) + abs(R["velocity"][4]) / r0) + 1e-300
                if Tm > 0 and abs(T_r) * r0 <= 1e-9 * Tm:
                    T_r = 0.0       # uniform temperature: no flux at all (round-off must not be amplified)
                base = abs((4 * CLIGHT * ARAD / 3) * rho ** al * Tm ** (be + 3) * T_r / (r0 * rho)) if Tm > 0 else 0.0
                lam0 = hyd / base if base > 0 else None
            if lam0 is not None:
                flux = (al, be, 4 * CLIGHT * ARAD * lam0 / 3.0)
        branch = "g=%d" % geom
        if ent in ("Noh", "Cog19", "Cog20", "Cog21"):
            branch += " post-shock" if lab else " pre-shock"
        euler_probe(ctx, type(s).__name__, branch, R, T, r0, hr, ht, k, flux=flux, tol=1e-6,
                    detail=dict(t=t0, params={a: b for a, b in d["passed"].items() if isinstance(b, (int, float))}))


# ---- EHEP -------------------------------------------------------------------------------------------------
def gen_ehep(rng, i, tier):
    return dict(seed=int(rng.integers(2 ** 31)), want=["I", "II", "III", "IV", "V"][i % 5])


def run_ehep(ctx, p):
    from exactpack.solvers.ehep.ehep import EscapeOfHEProducts
    rng = np.random.default_rng(p["seed"])
    kw = C.gen_ehep(rng, 1)
    s = ctx.make(EscapeOfHEProducts, **kw)
    D, xt = kw["D"], kw["xtilde"]
    fields = ["density", "velocity", "pressure", "specific_internal_energy"]
    # rejection-sample a point of the wanted region (label read from the returned 'region' field)
    tmaxu = min(kw["tmax"], kw["xmax"] / D) * 0.95
    for _ in range(200):
        t0 = uni(rng, 0.05, 1.0) * tmaxu
        x0 = uni(rng, -0.5 * D * t0, D * t0)
        lab = str(ctx.call(s, np.array([x0]), t0)["region"][0])
        if lab == p["want"]:
            break
    else:
        raise Skip("region_%s_not_hit" % p["want"])
    h = 1e-3 * max(abs(x0), D * t0 * 0.1)
    ht = 1e-3 * t0
    R, T, labels = stencil(ctx, s, x0, t0, h, ht, fields)
    same, lab = one_region(labels)
    if not same:
        raise Skip("stencil_straddles_region_boundary")
    # planar: k = 0; r0 only enters through k*.../r0
    euler_probe(ctx, "EscapeOfHEProducts", "region " + str(lab), R, T, 1.0, h, ht, 0.0, tol=1e-6,
                detail=dict(x=x0, t=t0, params=kw))


# ---- Riemann fans --------------------------------------------------------------------------------------------
def gen_fan(which):
    def g(rng, i, tier):
        st = RC.gen_state(rng)
        side = int(rng.integers(2))
        if which == "GenEOS":
            # few cases (each probe costs ~18 solves of seconds): the patterns with a fan and the probed side are
            # enumerated, the two gammas unequal - R-C-R left, R-C-R right, R-C-S, S-C-R, ...
            want, side = [("RCR", 0), ("RCR", 1), ("RCS", 0), ("SCR", 0)][i % 4]
            st = RC.gen_state_with_pattern(rng, want) or st
        xd0, t = RC.gen_frame(rng, st)
        return dict(which=which, st=st, xd0=xd0, t=t, f=uni(rng, 0.15, 0.85), side=side)
    return g


def run_fan(ctx, p):
    which, st, xd0, t0 = p["which"], p["st"], p["xd0"], p["t"]
    pat, V = RC.probe(ctx, which, st, xd0, t0)
    fans = []
    if pat[0] == "R":
        fans.append(("left", V[0], V[1]))
    if pat[2] == "R":
        fans.append(("right", V[-2], V[-1]))
    if not fans:
        raise Skip("no_fan_in_pattern")
    side, vh, vt = fans[p["side"] % len(fans)]
    w = (vt - vh) * t0
    span = max(float(V.max() - V.min()), 1e-3 * (abs(V).max() + 1e-300)) * t0
    a, b = xd0 + t0 * V.min() - 0.3 * span, xd0 + t0 * V.max() + 0.3 * span
    gen = which == "GenEOS"
    cell = RC.geneos_cell(ctx, st, xd0, a, b, t0) if gen else (b - a) / 10000.0
    if w <= (60 * cell if gen else 1e-9 * span):
        raise Skip("fan_too_narrow")
    x0 = xd0 + t0 * (vh + p["f"] * (vt - vh))
    hx = min(0.1 * w, 0.2 * (x0 - (xd0 + t0 * vh)), 0.2 * ((xd0 + t0 * vt) - x0))
    if gen:
        hx = max(hx, 40 * cell)
        if x0 - 2 * hx < xd0 + t0 * vh + 3 * cell or x0 + 2 * hx > xd0 + t0 * vt - 3 * cell:
            raise Skip("fan_too_narrow_for_stencil")
    # time stencil: the fan moves; keep x0 inside it
    xi = (x0 - xd0) / t0
    # (x0 must stay inside the fan at all nine time levels: its similarity coordinate moves by xi * dt/t)
    ht = min(0.05 * t0 if gen else 2e-2 * t0, 0.4 * t0 * min(abs(xi - vh), abs(vt - xi)) / (abs(xi) + 1e-300))
    s = RC.make_solver(ctx, which, st, xd0, a, b)
    fields = ["density", "velocity", "pressure", "specific_internal_energy"]
    R, T, labels = stencil(ctx, s, x0, t0, hx, ht, fields)
    euler_probe(ctx, which + "_Solver", "%s fan of %s" % (side, pat), R, T, 1.0, hx, ht, 0.0,
                tol=1e-4 if gen else 1e-6, detail=dict(x=x0, t=t0, st=st, xd0=xd0, Vregs=V.tolist()))


# ---- Sedov ---------------------------------------------------------------------------------------------------
def gen_sedov(rng, i, tier):
    geom = 1 + i % 3
    kw = C.gen_sedov(rng, geom)
    return dict(geom=geom, kw=kw, t=logu(rng, 0.2, 3), fr=[uni(rng, 0.15, 0.9) for _ in range(4)])


def run_sedov(ctx, p):
    from exactpack.solvers.sedov.sedov import Sedov
    geom, kw, t0 = p["geom"], p["kw"], p["t"]
    s = ctx.make(Sedov, geometry=geom, **kw)
    # shock radius at t0 (public attribute r2 after a call)
    ctx.call(s, np.array([1.0]), t0)
    r2 = float(s.r2)
    styp = s.solution_type
    rmax = 0.98 * r2            # the internal grid is linspace(0, max(r), 3001): keep max(r) fixed in every call
    dlt = rmax / 3000.0
    ht = 2e-3 * t0
    # r2 grows with t: rmax must stay behind the shock for all time levels
    xg2 = geom + 2.0 - kw["omega"]
    if rmax > r2 * ((t0 - 2 * ht) / t0) ** (2.0 / xg2) * 0.999:
        rmax = 0.97 * r2 * ((t0 - 2 * ht) / t0) ** (2.0 / xg2)
        dlt = rmax / 3000.0
    m = 12                       # stencil spacing h/2 = m node spacings
    fields = ["density", "velocity", "pressure", "specific_internal_energy"]
    # The cost of a Sedov call does not depend on the number of requested points (it always evaluates its
    # 3001 internal nodes), so every time level requests all nodes: radii are exact node positions and no
    # interpolation error enters.
    idx = np.arange(1, 3001)
    pts = idx * dlt
    pts[-1] = rmax
    sols = {}
    for kk in OFF9:
        sols[kk] = ctx.call(s, pts, t0 + kk * ht / 2.0)
    # Inner core: the solver stops its root-finding where the similarity variable no longer changes by more
    # than vtol = 1e-8 between nodes ("the solution has become invalid", sedov.py) and joins the last computed
    # node to the origin by a straight line.  That core (density below ~1e-3 of the post-shock value, but up
    # to half the radius for gamma near 1) is outside the solver's documented resolution: located on the
    # returned density (exactly collinear nodes) at every time level and excluded, with a margin.
    core = 0
    for kk in OFF9:
        d = np.asarray(sols[kk]["density"], dtype=float)
        dd = np.abs(np.diff(d, 2)) / (np.abs(d[1:-1]) + 1e-300)
        j = 0
        while j < len(dd) and dd[j] < 1e-7:
            j += 1
        core = max(core, j + 2)
    rvv = float(getattr(s, "rvv", 0.0) or 0.0)
    lo = max(core + 4 * m + 30, int(1.08 * rvv / dlt) + 4 * m + 2 if styp == "vacuum" else 0, 4 * m + 2)
    hi = 3000 - 4 * m - 2
    if lo >= hi:
        raise Skip("no_room_outside_truncated_core")
    ctx.count("sedov_core_fraction_permille", int(1000.0 * core / 3000))
    for f in p["fr"]:
        i0 = int(round(lo + f * (hi - lo)))
        R = {fl: np.array([sols[0][fl][i0 + j * m - 1] for j in OFF9], dtype=float) for fl in fields}
        T = {fl: np.array([sols[kk][fl][i0 - 1] for kk in OFF9], dtype=float) for fl in fields}
        # tolerance: the solver's own accuracy on its 3001 nodes (measured worst residual of the unchanged tree 9e-4 in
        # the quick tiers, 2.0e-3 once in 1900 thorough probes, in the thin low-density layer next to the truncated core)
        euler_probe(ctx, "Sedov", "g=%d %s" % (geom, styp), R, T, i0 * dlt, 2 * m * dlt, ht, geom - 1.0, tol=3e-3,
                    detail=dict(t=t0, params=kw, r2=r2, node=i0, core_nodes=core))


# ---- Guderley -------------------------------------------------------------------------------------------------
def gen_gud(rng, i, tier):
    # gamma below ~1.9 (the class default 1.4 included) costs 2-4 minutes *per call* in the eigenvalue search of eexp.py and a
    # probe needs about twenty calls: out of reach of a monitor that has to finish, in either tier (stated in section 9)
    gammas = [2.0, 2.5, 3.0, 6.0]
    return dict(geom=2 + (i % 2), gamma=choice(rng, gammas), rho0=logu(rng, 0.1, 10),
                zone=["incoming", "behind-incoming", "reflected"][i % 3], u=[uni(rng, 0, 1) for _ in range(3)])


def run_gud(ctx, p):
    from exactpack.solvers.guderley.guderley import Guderley
    from exactpack.solvers.guderley.eexp import eexp
    s = ctx.make(Guderley, geometry=p["geom"], gamma=p["gamma"], rho0=p["rho0"])
    lam = float(ctx.quiet(eexp, p["geom"], p["gamma"]))
    # similarity variable x = t_L / r^lambda: incoming shock at x = -1, reflected shock at x = B in (0,1)
    zone = p["zone"]
    if zone == "incoming":
        x = -(1.0 + 0.15 + 3.0 * p["u"][0])         # ahead... x < -1 is the undisturbed gas; use disturbed flow
        x = -(0.15 + 0.8 * p["u"][0])                # -1 < x < 0: behind the converging shock, before collapse
    elif zone == "behind-incoming":
        x = 0.02 + 0.2 * p["u"][0]                   # after collapse, ahead of the reflected shock (0 < x < B)
    else:
        x = 1.5 + 3.0 * p["u"][0]                    # behind the reflected shock (x > B)
    r0 = 0.3 + 1.5 * p["u"][1]
    tL = x * r0 ** lam
    t0 = FACTOR_C * (tL + 1.0)
    hr = 2e-3 * r0
    ht = 2e-3 * max(abs(tL), 0.05) * FACTOR_C
    fields = ["density", "velocity", "pressure", "specific_internal_energy"]
    R, T, labels = stencil(ctx, s, r0, t0, hr, ht, fields)
    # the stencil must not straddle a shock: density jumps by O(1) there
    dmax = max(np.max(np.abs(np.diff(R["density"]))), np.max(np.abs(np.diff(T["density"]))))
    if dmax > 0.05 * R["density"][4]:
        raise Skip("stencil_straddles_shock")
    euler_probe(ctx, "Guderley", "g=%d %s" % (p["geom"], zone), R, T, r0, hr, ht, p["geom"] - 1.0, tol=1e-5,
                tfac=FACTOR_C, detail=dict(t=t0, t_lazarus=tL, x_similarity=x, gamma=p["gamma"], lam=lam))


def reach(tot, tier):
    out = []
    seen = {}
    for k, st in tot["stats"].items():
        m, s, b = k.split("|", 2)
        if st["held"] + st["violated"] > 0:
            seen.setdefault(s, set()).add(b)
    for c in COG_GENERAL:
        if c in ("Cog14",) and c not in seen:
            continue
        if c not in seen:
            out.append("no conclusive PDE probe for %s" % c)
    for c in ("Noh", "Noh2", "Noh2Cog", "EscapeOfHEProducts", "IGEOS_Solver", "Sedov", "Guderley"):
        if c not in seen:
            out.append("no conclusive PDE probe for %s" % c)
    for reg in ("I", "II", "III", "IV", "V"):
        if "region " + reg not in seen.get("EscapeOfHEProducts", ()):
            out.append("EHEP region %s not probed" % reg)
    return out


UNITS = [
    Unit("closed", gen_closed, run_closed, quick=23 * 24, thorough=23 * 240, min_nontrivial=1500),
    Unit("ehep", gen_ehep, run_ehep, quick=100, thorough=1000, min_nontrivial=100),
    Unit("fan.igeos", gen_fan("IGEOS"), run_fan, quick=240, thorough=3000, min_nontrivial=150),
    Unit("fan.geneos", gen_fan("GenEOS"), run_fan, quick=8, thorough=48, min_nontrivial=1),
    Unit("sedov", gen_sedov, run_sedov, quick=12, thorough=120, min_nontrivial=12),
    Unit("guderley", gen_gud, run_gud, quick=48, thorough=480, min_nontrivial=40),
]

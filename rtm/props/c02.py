"""C02 - every shock, detonation front and contact obeys the Rankine-Hugoniot relations.

The discontinuity is located on the fields returned by the public call (bisection on a region
label along r at fixed t, repeated at t -/+ dt for the front speed D), the one-sided states are read
at x_s (1 -/+ eps), and the three jumps

   [rho (u-D)],  [rho (u-D) u + P],  [rho (u-D)(e + u^2/2) + P u]        (P = p - s' for the piston)

are each normalised by the sum of the magnitudes of their individual terms on both sides.  Contacts:
equal p and u.  Reaction zone (SDRZ): rho (D-u) = rho0 D and p + rho (D-u)^2 = rho0 D^2 at every table
node behind the front.  Mader: the state next to the front against the CJ relations.  RMTV (no public
time): the D-free relation (u1-u2)^2 = (p2-p1)(1/rho1-1/rho2) and continuity of T.
"""
import math

import numpy as np

from ..core import Unit, Skip, SolverRaised, logu, uni, choice
from ..oracles import bisect_change
from .. import catalogue as C
from .. import riemann_common as RC

RULE = ("per problem with a discontinuity: random admissible parameters (geometry, gamma, EOS constants, piston "
        "speed/yield/model, density exponent ...) and times; front located on the returned fields.  distinct = "
        "(jump condition, class, wave/branch, case); non-trivial = the states on the two sides differ.")
ASSUME = ["front speed from central differences of the located position at t -/+ dt (exact for self-similar fronts up "
          "to O(dt^2) curvature, which is included in the tolerance for non-uniform fronts)",
          "interpolating solvers (GenEOS, Sedov, SDRZ, Mader): states are read at internal nodes next to the smeared cell"]

F4 = ("density", "velocity", "pressure", "specific_internal_energy")
FACTOR_C = 0.750024322


def state(sol, i, stress=None):
    d = dict(rho=float(sol["density"][i]), u=float(sol["velocity"][i]), p=float(sol["pressure"][i]),
             e=float(sol["specific_internal_energy"][i]) if "specific_internal_energy" in sol.dtype.names else float("nan"))
    d["P"] = d["p"] - (float(sol[stress][i]) if stress else 0.0)
    return d


def jumps(ctx, name, branch, L, R, D, tol, detail=None, which=("mass", "momentum", "energy")):
    """L, R: one-sided states (dicts with rho,u,P,e); D front speed"""
    out = {}
    terms = {
        "mass": [L["rho"] * (L["u"] - D), -R["rho"] * (R["u"] - D)],
        "momentum": [L["rho"] * (L["u"] - D) * L["u"], L["P"], -R["rho"] * (R["u"] - D) * R["u"], -R["P"]],
        "energy": [L["rho"] * (L["u"] - D) * L["e"], L["rho"] * (L["u"] - D) * 0.5 * L["u"] ** 2, L["P"] * L["u"],
                   -R["rho"] * (R["u"] - D) * R["e"], -R["rho"] * (R["u"] - D) * 0.5 * R["u"] ** 2, -R["P"] * R["u"]],
    }
    nontriv = abs(L["rho"] - R["rho"]) > 1e-9 * max(abs(L["rho"]), abs(R["rho"])) or abs(L["P"] - R["P"]) > 0
    for k in which:
        tt = terms[k]
        sc = sum(abs(x) for x in tt)
        s = abs(sum(tt))
        res = s / sc if sc > 0 else 0.0
        ok = (res <= tol) if math.isfinite(res) else False
        ctx.observe("rh." + k, name, ok, branch=branch, measure=res, tol=tol, nontrivial=bool(nontriv) and sc > 0,
                    detail=dict(detail or {}, left=L, right=R, D=D, terms=tt))
        out[k] = res
    return out


def locate_label(ctx, s, t, a, b, label, rel=1e-13):
    """bisection on label(s(point,t)) between a and b (labels differ at a and b)"""
    def f(x):
        return label(ctx.call(s, np.array([x]), t))
    fa, fb = f(a), f(b)
    if fa == fb:
        return None
    lo, hi = bisect_change(f, a, b, fa=fa, rel=rel)
    return lo, hi


def front_and_states(ctx, s, t, dt, a_of_t, b_of_t, label, eps=1e-9, stress=None):
    """locate at t-dt, t, t+dt; states at t on both sides.  a_of_t/b_of_t: bracket as function of time."""
    xs = []
    for tt in (t - dt, t, t + dt):
        br = locate_label(ctx, s, tt, a_of_t(tt), b_of_t(tt), label)
        if br is None:
            return None
        xs.append(0.5 * (br[0] + br[1]))
    D = (xs[2] - xs[0]) / (2 * dt)
    curv = abs(xs[2] - 2 * xs[1] + xs[0]) / (abs(xs[2] - xs[0]) + 1e-300)      # relative curvature over the stencil
    x0 = xs[1]
    sol = ctx.call(s, np.array([x0 * (1 - eps) if x0 != 0 else -eps, x0 * (1 + eps) if x0 != 0 else eps]), t)
    if x0 < 0:
        sol = ctx.call(s, np.array([x0 * (1 + eps), x0 * (1 - eps)]), t)
    return dict(x=x0, D=D, curv=curv, L=state(sol, 0, stress), R=state(sol, 1, stress))


def p_label(sol):
    return bool(float(sol["pressure"][0]) > 0)


# ---- Noh, Cog19/20/21 ---------------------------------------------------------------------------------------
SHOCKED = ["Noh", "Cog19", "Cog20", "Cog21"]


def gen_closed(rng, i, tier):
    return dict(entry=SHOCKED[i % 4], seed=int(rng.integers(2 ** 31)))


def run_closed(ctx, p):
    ent = p["entry"]
    e = C.CAT[ent]
    cls = C.load(e["path"])
    rng = np.random.default_rng(p["seed"])
    d = C.draw(ctx, cls, ent, rng, n=3)
    if d is None:
        raise Skip("no_admissible_draw")
    s, t, kw = d["solver"], d["t"], d["full"]
    geom = d["geom"] if d["geom"] is not None else 3
    dt = 1e-4 * t
    label = p_label if ent == "Noh" else (lambda sol: bool(float(sol["temperature"][0]) > 0))
    # bracket: wide, found by scanning the returned label over decades of r
    rr = np.geomspace(1e-6, 1e6, 241) * max(abs(kw.get("u0", 1.0)) * t, 1e-3)
    lab = [label(ctx.call(s, np.array([x]), t)) for x in rr[::8]]
    ch = [j for j in range(len(lab) - 1) if lab[j] != lab[j + 1]]
    if not ch:
        raise Skip("no_front_in_scan")
    a, b = rr[::8][ch[0]], rr[::8][ch[0] + 1]
    fs = front_and_states(ctx, s, t, dt, lambda tt: a * 0.5, lambda tt: b * 2.0, label)
    if fs is None:
        raise Skip("front_not_bracketed")
    tol = 1e-8 + 10 * fs["curv"] * 1e-4
    jumps(ctx, type(s).__name__, "g=%d" % geom, fs["L"], fs["R"], fs["D"], tol,
          detail=dict(t=t, x=fs["x"], params={k: v for k, v in d["passed"].items() if isinstance(v, (int, float))}))


# ---- black-box Noh -----------------------------------------------------------------------------------------
def gen_bb(rng, i, tier):
    from .c03 import gen_bb as g
    return g(rng, i, tier)


def run_bb(ctx, p):
    from exactpack.solvers.nohblackboxeos import blackboxnoh as B
    geom = p["kw"]["ic"]["symmetry"] + 1
    cls = B.NohBlackBoxEos if p["cls"] == "NohBlackBoxEos" else \
        [B.PlanarNohBlackBox, B.CylindricalNohBlackBox, B.SphericalNohBlackBox][geom - 1]
    s = ctx.quiet(C.build_bbnoh, cls, p["kw"])
    t = 0.7
    u0 = abs(p["kw"]["ic"]["velocity"])
    p0 = float(p["kw"]["ic"]["pressure"])

    def shocked(sol):            # behind the shock the pressure is above the initial one (which is > 0 for some planar cases)
        return bool(float(sol["pressure"][0]) > p0 * (1.0 + 1e-9))
    fs = front_and_states(ctx, s, t, 1e-4 * t, lambda tt: 1e-4 * u0 * tt, lambda tt: 50 * u0 * tt, shocked)
    if fs is None:
        raise Skip("front_not_bracketed")
    jumps(ctx, cls.__name__, "g=%d %s" % (geom, p["kw"]["eos"]), fs["L"], fs["R"], fs["D"], 1e-6,
          detail=dict(t=t, x=fs["x"], eos=p["kw"]["eos"], consts=p["kw"]["consts"], ic=p["kw"]["ic"]))
    ctx.observe("rh.mass", cls.__name__, fs["D"] > 0, branch="D>0 g=%d %s" % (geom, p["kw"]["eos"]), measure=fs["D"])


# ---- Riemann -----------------------------------------------------------------------------------------------
def gen_rm(which):
    def g(rng, i, tier):
        if which == "GenEOS" and i % 3 == 2:
            nm = choice(rng, sorted(RC.JWL_SETS))
            st = dict(RC.JWL_SETS[nm])
            st["problem"] = "JWL"
            for k in ("rl", "pl", "rr", "pr"):
                st[k] *= uni(rng, 0.85, 1.2)
            xd0, t = 50.0, uni(rng, 5, 15)
        else:
            st = RC.gen_state(rng)
            xd0, t = RC.gen_frame(rng, st)
        return dict(which=which, st=st, xd0=xd0, t=t)
    return g


def run_rm(ctx, p):
    which, st, xd0, t = p["which"], p["st"], p["xd0"], p["t"]
    name = which + "_Solver"
    gen = which == "GenEOS"
    pat, V = RC.probe(ctx, which, st, xd0, t)
    span = max(float(V.max() - V.min()), 1e-3 * (abs(V).max() + 1e-300)) * t
    a, b = xd0 + t * V.min() - 0.3 * span, xd0 + t * V.max() + 0.3 * span
    s = RC.make_solver(ctx, which, st, xd0, a, b)
    cell = (b - a) / 10000.0
    if gen:
        # the general solver widens the requested window to 1.1 x the extreme wave positions *in absolute coordinates*
        # (far from the origin that is much wider than the waves): the cell size is read from the grid it actually used
        ctx.call(s, np.array([xd0]), t)
        gx = np.asarray(s.x, float)
        cell = max(cell, float(gx.max() - gx.min()) / max(len(gx) - 1, 1))
    # waves: list of (kind, index into Vregs)
    waves = []
    if pat[0] == "S":
        waves.append(("left shock", 0))
    ic = 1 if pat[0] == "S" else 2
    waves.append(("contact", ic))
    if pat[2] == "S":
        waves.append(("right shock", len(V) - 1))
    dt = 1e-3 * t
    du = "du=0" if st["ul"] == st["ur"] else "du!=0"
    gsame = "gl=gr" if st["gl"] == st["gr"] else "gl!=gr"
    for kind, j in waves:
        xh = xd0 + t * V[j]
        others = [abs(xd0 + t * v - xh) for n, v in enumerate(V) if n != j]
        gap = min(others) if others else span
        if gen:
            off = 3.0 * cell
            if gap < 8 * cell:
                ctx.count("wave_too_close_to_neighbour:" + name)
                continue
            sol = ctx.call(s, np.array([xh - off, xh + off]), t)
            L, R = state(sol, 0), state(sol, 1)
            D = float(V[j])
            tol = 1e-4
        else:
            w = min(0.3 * gap, 1e-3 * span)
            if w <= 0:
                continue

            def lab(sol, ref=[None]):
                return round(float(sol["density"][0]), 300)
            # bisection on "equal to the state left of the wave"
            sl = ctx.call(s, np.array([xh - w]), t)
            rho_l = float(sl["density"][0])
            u_l = float(sl["velocity"][0])
            e_l = float(sl["specific_internal_energy"][0])

            def label(sol):
                return (float(sol["density"][0]) == rho_l and float(sol["velocity"][0]) == u_l
                        and float(sol["specific_internal_energy"][0]) == e_l)
            xs = []
            for tt in (t - dt, t, t + dt):
                xc = xd0 + tt * V[j]
                # left state is constant in time (self-similar): same label function
                br = locate_label(ctx, s, tt, xc - w, xc + w, label)
                if br is None:
                    xs = None
                    break
                xs.append(0.5 * (br[0] + br[1]))
            if xs is None and kind == "contact" and st["rl"] == st["rr"] and st["pl"] == st["pr"] and st["gl"] == st["gr"]:
                # equal thermodynamic states on the two sides of the membrane: the two star states coincide and the contact
                # carries no jump at all (nothing to locate, nothing to balance)
                sr = ctx.call(s, np.array([xh + w]), t)
                if all(abs(float(sr[f][0]) - float(sl[f][0])) <= 1e-12 * max(abs(float(sl[f][0])), abs(float(sr[f][0])), 1e-300)
                       for f in ("density", "velocity", "pressure", "specific_internal_energy")):
                    ctx.count("contact_without_jump:" + name)
                    continue
            if xs is None:
                ctx.count("wave_not_bracketed:" + name)
                ctx.observe("rh.located", name, False, branch="%s of %s" % (kind, pat),
                            detail=dict(st=st, t=t, hint=xh, note="no discontinuity in the fields where Vregs places it"))
                continue
            D = (xs[2] - xs[0]) / (2 * dt)
            eps = 1e-9 * max(abs(xs[1]), span)
            sol = ctx.call(s, np.array([xs[1] - eps, xs[1] + eps]), t)
            L, R = state(sol, 0), state(sol, 1)
            tol = 1e-8
            ctx.observe("rh.located", name, abs(xs[1] - xh) <= 1e-9 * span, branch="%s of %s" % (kind, pat),
                        measure=abs(xs[1] - xh) / span, tol=1e-9, detail=dict(located=xs[1], Vregs_position=xh))
        br = "%s of %s %s %s" % (kind, pat, du, gsame) + (" JWL" if "problem" in st else "")
        det = dict(st=st, xd0=xd0, t=t)
        if kind == "contact":
            # acoustic accuracy of the star state (bisect xtol) enters here for the ideal-gas solver
            sp = max(abs(L["p"]), abs(R["p"]))
            fl = RC.bisect_floors(sol, st) if not gen else {}
            cs = math.sqrt(st["gl"] * st["pl"] / st["rl"]) + math.sqrt(st["gr"] * st["pr"] / st["rr"])
            ctx.observe("rh.contact", name, abs(L["p"] - R["p"]) <= tol * sp + fl.get("floor_pressure", 0.0), branch="[p]=0 " + br,
                        measure=abs(L["p"] - R["p"]) / sp, tol=tol, detail=dict(det, left=L, right=R))
            ctx.observe("rh.contact", name, abs(L["u"] - R["u"]) <= tol * cs + fl.get("floor_velocity", 0.0), branch="[u]=0 " + br,
                        measure=abs(L["u"] - R["u"]) / cs, tol=tol, detail=dict(det, left=L, right=R))
            ctx.observe("rh.contact", name, abs(D - 0.5 * (L["u"] + R["u"])) <= max(tol, 1e-6) * cs + fl.get("floor_velocity", 0.0),
                        branch="speed=u* " + br, measure=abs(D - L["u"]) / cs, tol=max(tol, 1e-6), detail=dict(det, D=D, left=L))
        else:
            tolj = tol
            if not gen:
                # p* is known to bisect's absolute xtol: relative accuracy of the jump conditions ~ xtol/p*
                tolj = tol + 2e-11 / max(min(L["p"], R["p"]), 1e-300) + 2e-11 / max(abs(L["p"] - R["p"]), 1e-300)
            jumps(ctx, name, br, L, R, D, tolj, detail=det)


# ---- Sedov ----------------------------------------------------------------------------------------------------
def gen_sedov(rng, i, tier):
    geom = 1 + i % 3
    kw = C.gen_sedov(rng, geom)
    if i % 4 == 3:
        kw["omega"] = uni(rng, 0.9, 0.97) * geom      # towards the vacuum type
    return dict(geom=geom, kw=kw, t=logu(rng, 0.2, 3))


def run_sedov(ctx, p):
    from exactpack.solvers.sedov.sedov import Sedov
    geom, kw, t = p["geom"], p["kw"], p["t"]
    s = ctx.make(Sedov, geometry=geom, **kw)
    dt = 1e-3 * t
    r2 = []
    for tt in (t - dt, t + dt, t):
        ctx.call(s, np.array([1.0]), tt)
        r2.append(float(s.r2))
    x0 = r2[2]
    D = (r2[1] - r2[0]) / (2 * dt)
    dl = 1e-7
    inside = ctx.call(s, np.array([0.5 * x0, x0 * (1 - dl)]), t)        # max(r) is an internal node: exact value
    outside = ctx.call(s, np.array([0.5 * x0, x0 * (1 + dl)]), t)
    L, R = state(inside, 1), state(outside, 1)
    # thin-shell solutions (omega -> k) are steep right behind the front: extrapolate the one-sided state
    # linearly to the front from two distances
    inside2 = ctx.call(s, np.array([0.5 * x0, x0 * (1 - 2 * dl)]), t)
    L2 = state(inside2, 1)
    L = {k: 2.0 * L[k] - L2[k] for k in L}
    ok_loc = (L["p"] > 0) and (R["p"] == 0.0)
    name, br = "Sedov", "g=%d %s" % (geom, s.solution_type)
    ctx.observe("rh.located", name, ok_loc, branch=br, detail=dict(r2=x0, inside=L, outside=R, params=kw))
    # the solver's reported jump location must be the same number
    jl = inside.jumps[0] if getattr(inside, "jumps", None) else None
    if jl is not None:
        ctx.observe("rh.located", name, abs(float(jl) - x0) <= 1e-12 * x0, branch="jumps[0]==r2 " + br, measure=abs(float(jl) - x0) / x0)
    xg2 = geom + 2.0 - kw["omega"]
    # accuracy of the solver's own numerics: the similarity variable comes from scipy's fminbound applied to
    # a *squared* residual, i.e. it is only good to ~sqrt(eps); measured 3e-6 in the post-shock state.  In the
    # mass flux rho2 (u2 - D) this is amplified by (gamma+1)/(gamma-1) (u2 -> D as gamma -> 1).
    gam = kw["gamma"]
    jumps(ctx, name, br, L, R, D, 1e-5 + 5e-6 * (gam + 1.0) / (gam - 1.0), detail=dict(t=t, params=kw, r2=x0))
    # documented trajectory exponent: D = (2/(k+2-omega)) r2/t
    ctx.observe("rh.speed", name, abs(D - 2.0 / xg2 * x0 / t) <= 1e-5 * D, branch=br, measure=abs(D * t * xg2 / (2 * x0) - 1), tol=1e-5)


# ---- elastic-plastic piston -----------------------------------------------------------------------------------------
def gen_pis(rng, i, tier):
    kw = C.gen_piston(rng, None)
    kw["model"] = ["hypo", "hyperIfin", "hyperFin"][i % 3]
    if (i // 3) % 8 == 7:
        # a piston fast enough for the plastic wave to overtake the precursor
        kw["up"] = kw["c0"] * uni(rng, 0.2, 0.8)
    return dict(kw=kw, f=uni(rng, 0.3, 0.9), xmax=logu(rng, 0.5, 5))


def run_pis(ctx, p):
    from exactpack.solvers.ep_piston.ep_piston import EPpiston
    kw = p["kw"]
    s = ctx.make(EPpiston, **kw)
    if not (s.up > s.vel_y):
        raise Skip("piston_slower_than_precursor")
    # overdriven (the plastic wave would overtake the elastic precursor): the solver is not rejecting the problem, it
    # returns one front between the undisturbed and the 'plastic' state - which is judged like any other front
    over = not (s.wv_pl < s.wv_el)
    xmax = p["xmax"]
    t = p["f"] * xmax / max(s.wv_el, s.wv_pl)
    dt = 1e-3 * t
    name = "EPpiston"

    def call(x, tt):
        return ctx.call(s, np.array([x, xmax]), tt)
    # scan density for the two fronts
    for wave in (("overdriven single",) if over else ("plastic", "elastic")):
        def label(sol, wave=wave):
            rho = float(sol["density"][0])
            return rho > s.rho0 * (1 + 1e-15) if wave != "plastic" else rho > s.rho_y * (1 + 1e-12)
        xs = []
        for tt in (t - dt, t, t + dt):
            f = lambda x: label(call(x, tt))      # noqa: E731
            a, b = 1e-9 * xmax, xmax * (1 - 1e-12)
            if f(a) == f(b):
                xs = None
                break
            lo, hi = bisect_change(f, a, b, rel=1e-13)
            xs.append(0.5 * (lo + hi))
        if xs is None:
            ctx.count("piston_front_not_found:" + wave)
            continue
        D = (xs[2] - xs[0]) / (2 * dt)
        eps = 1e-9 * xs[1]
        sol = ctx.call(s, np.array([xs[1] - eps, xs[1] + eps, xmax]), t)
        L, R = state(sol, 0, "deviatoric stress"), state(sol, 1, "deviatoric stress")
        jumps(ctx, name, "%s wave %s" % (wave, kw["model"]), L, R, D, 1e-6, detail=dict(t=t, params=kw, x=xs[1]))


# ---- SDRZ -----------------------------------------------------------------------------------------------------------
def gen_sdrz(rng, i, tier):
    return dict(kw=C.gen_sdrz(rng, 1), t=choice(rng, [uni(rng, 0.2, 0.99), uni(rng, 1.01, 4.0), 1.0, 2.0]))


def run_sdrz(ctx, p):
    from exactpack.solvers.sdrz.sdrz import SteadyDetonationReactionZone as S
    kw, t = p["kw"], p["t"]
    s = ctx.make(S, **kw)
    D, r0 = kw["D"], kw["rho_0"]
    tab = s.run_tvec(np.linspace(0.0, t, 201))
    nodes = np.asarray(tab["position"], dtype=float)[::-1]
    # public call on the table's own nodes (no interpolation error) and on mid-points (resolution-limited)
    nodes = nodes[(nodes > nodes[0]) & (nodes < nodes[-1])]
    sol = ctx.call(s, nodes, t)
    rho, u, pr = (np.asarray(sol[k], dtype=float) for k in ("density", "velocity", "pressure"))
    m = pr > 0
    if not m.any():
        raise Skip("no_reaction_zone_points")
    mass = np.abs(rho * (D - u) - r0 * D)[m] / (r0 * D)
    mom = np.abs(pr + rho * (D - u) ** 2 - r0 * D * D)[m] / (r0 * D * D)
    br = "t<=1" if t <= 1 else "t>1"
    ctx.observe("rh.mass", "SteadyDetonationReactionZone", float(mass.max()) <= 1e-9, branch="reaction zone nodes " + br,
                measure=float(mass.max()), tol=1e-9, detail=dict(params=kw, t=t, n=int(m.sum())))
    ctx.observe("rh.momentum", "SteadyDetonationReactionZone", float(mom.max()) <= 1e-9, branch="reaction zone nodes " + br,
                measure=float(mom.max()), tol=1e-9, detail=dict(params=kw, t=t, n=int(m.sum())))
    # the profile is a function of distance behind the front: monotone table, front at D t
    front = ctx.call(s, np.array([D * t * (1 - 1e-9), D * t * (1 + 1e-9)]), t)
    okf = float(front["pressure"][0]) > 0 and float(front["pressure"][1]) == 0.0
    ctx.observe("rh.located", "SteadyDetonationReactionZone", okf, branch="front at D t " + br,
                detail=dict(behind=float(front["pressure"][0]), ahead=float(front["pressure"][1])))
    # von Neumann spike: strong-shock jump from the ambient state (lambda=0): rho (D-u) = rho0 D; p = rho0 D u
    L = dict(rho=float(front["density"][0]), u=float(front["velocity"][0]), P=float(front["pressure"][0]), e=0.0)
    R = dict(rho=float(front["density"][1]), u=float(front["velocity"][1]), P=float(front["pressure"][1]), e=0.0)
    jumps(ctx, "SteadyDetonationReactionZone", "lead shock " + br, L, R, D, 1e-6, which=("mass", "momentum"),
          detail=dict(params=kw, t=t))


# ---- EHEP detonation front ------------------------------------------------------------------------------------------
def gen_ehep(rng, i, tier):
    return dict(kw=C.gen_ehep(rng, 1), f=uni(rng, 0.1, 0.9))


def run_ehep(ctx, p):
    from exactpack.solvers.ehep.ehep import EscapeOfHEProducts
    kw = p["kw"]
    s = ctx.make(EscapeOfHEProducts, **kw)
    D = kw["D"]
    # the explosive occupies 0 < x < xtilde; the detonation reaches the free surface at ttilde = xtilde/D
    xt = kw["xtilde"]
    t = p["f"] * xt / D
    dt = 0.05 * t          # straight front: a long baseline costs nothing and beats the solver's 1e-6 fuzzy region boundary

    def label(sol):
        return str(sol["region"][0]) == "0H"
    # the one-sided states are read 1e-7 (relative) from the located front: the solver assigns regions with polygon tests
    # whose own tolerance leaves points within ~1e-9 of a region boundary in no region at all (seen once in 1200 thorough
    # cases: the point just behind the front came back as the all-zero "no region" record - C20's subject, not a jump)
    fs = front_and_states(ctx, s, t, dt, lambda tt: 0.5 * D * tt, lambda tt: D * tt + 0.5 * (xt - D * tt), label, eps=1e-7)
    if fs is None:
        raise Skip("front_not_bracketed")
    # Chapman-Jouguet detonation: the unburnt explosive carries the heat of reaction q = D^2/(2(gamma^2-1)),
    # which the solver (returning e = 0 where p = 0) does not report; with it the energy jump closes.
    g = kw.get("gamma", 3.0)
    fs["R"]["e"] = D * D / (2.0 * (g * g - 1.0))
    jumps(ctx, "EscapeOfHEProducts", "detonation front", fs["L"], fs["R"], fs["D"], 5e-5, detail=dict(t=t, params=kw, x=fs["x"]))
    ctx.observe("rh.speed", "EscapeOfHEProducts", abs(fs["D"] - D) <= 5e-5 * D, branch="front speed = D", measure=abs(fs["D"] / D - 1), tol=5e-5)
    # CJ (sonic) condition behind the front
    sol = ctx.call(s, np.array([fs["x"] * (1 - 1e-7)]), t)
    uc = float(sol["velocity"][0]) + float(sol["sound_speed"][0])
    ctx.observe("rh.speed", "EscapeOfHEProducts", abs(uc - D) <= 5e-5 * D, branch="u+c=D behind front", measure=abs(uc / D - 1), tol=5e-5)


# ---- Mader CJ state -----------------------------------------------------------------------------------------------
def gen_mader(rng, i, tier):
    kw = C.gen_mader(rng, None)
    return dict(kw=kw, t=logu(rng, 1e-6, 1e-5) * (1.0 if kw["d_cj"] > 100.0 else 1e6), n=int(choice(rng, [2000, 4000, 8000])))


def run_mader(ctx, p):
    from exactpack.solvers.mader.timmes import Mader
    kw, t, n = p["kw"], p["t"], p["n"]
    s = ctx.make(Mader, **kw)
    Dj, g, pcj = kw["d_cj"], kw["gamma"], kw["p_cj"]
    L = Dj * t
    dx = L / n
    x = dx * (np.arange(n) + 0.5)           # the front (xdet = D t) is at position 0: first cell touches it
    sol = ctx.call(s, x, t)
    rho0 = (g + 1.0) * pcj / Dj ** 2
    # Richardson in the distance to the front: cell averages at the first two cells -> value at the front
    def at_front(f):
        v = np.asarray(sol[f], dtype=float)
        return 1.5 * v[0] - 0.5 * v[1]
    u, pr, c, rho = at_front("velocity"), at_front("pressure"), at_front("sound_speed"), at_front("density")
    res = 4.0 * (dx / L) ** 2 + 1e-9          # second-order remainder of the extrapolation
    tol = 50 * res + 1e-6
    br = "gamma=3" if g == 3.0 else "gamma!=3"
    det = dict(params=kw, t=t, n=n, front_state=dict(u=u, p=pr, c=c, rho=rho))
    ctx.observe("rh.mass", "Mader", abs(rho * (Dj - u) - rho0 * Dj) <= tol * rho0 * Dj, branch="CJ " + br,
                measure=abs(rho * (Dj - u) / (rho0 * Dj) - 1), tol=tol, detail=det)
    ctx.observe("rh.momentum", "Mader", abs(pr - rho0 * Dj * u) <= tol * pcj, branch="CJ " + br,
                measure=abs(pr - rho0 * Dj * u) / pcj, tol=tol, detail=det)
    ctx.observe("rh.speed", "Mader", abs(u + c - Dj) <= tol * Dj, branch="u+c=D " + br, measure=abs((u + c) / Dj - 1), tol=tol, detail=det)
    ctx.observe("rh.momentum", "Mader", abs(pr - pcj) <= tol * pcj, branch="p(front)=p_cj " + br, measure=abs(pr / pcj - 1), tol=tol, detail=det)


# ---- Guderley --------------------------------------------------------------------------------------------------------
def gen_gud(rng, i, tier):
    return dict(geom=2 + i % 2, gamma=choice(rng, [2.0, 2.5, 3.0, 6.0]), rho0=logu(rng, 0.1, 10),
                which=["incoming", "reflected"][i % 2], r=uni(rng, 0.3, 1.5))


def _gud_locate(ctx, s, t, a, b, levels=4, n=40):
    """largest density jump between a and b at time t, refined `levels` times on n-point grids
    (one public call per level: the cost of a Guderley call is dominated by its set-up)"""
    lo, hi = a, b
    for _ in range(levels):
        xs = np.linspace(lo, hi, n)
        d = np.asarray(ctx.call(s, xs, t)["density"], dtype=float)
        j = int(np.argmax(np.abs(np.diff(d))))
        if abs(d[j + 1] - d[j]) < 0.05 * max(abs(d[j + 1]), abs(d[j])):
            return None
        lo, hi = xs[j], xs[j + 1]
    return 0.5 * (lo + hi), hi - lo


def run_gud(ctx, p):
    from exactpack.solvers.guderley.guderley import Guderley
    s = ctx.make(Guderley, geometry=p["geom"], gamma=p["gamma"], rho0=p["rho0"])
    g = p["gamma"]
    # incoming shock: t_L < 0 (before collapse); reflected shock: t_L > 0.  Every discontinuity that the
    # returned density shows along r is examined (the property speaks of every discontinuity the solution
    # contains), the main shock being the one with the largest velocity jump.
    tL = -(0.3 + 0.6 * (p["r"] - 0.3) / 1.2) if p["which"] == "incoming" else (0.2 + 0.8 * (p["r"] - 0.3) / 1.2)
    t = FACTOR_C * (tL + 1.0)
    xs = np.geomspace(0.02, 4.0, 140)
    sc = ctx.call(s, xs, t)
    d = np.asarray(sc["density"], dtype=float)
    u = np.asarray(sc["velocity"], dtype=float)
    rel = np.abs(np.diff(d)) / np.maximum(np.abs(d[1:]), np.abs(d[:-1]))
    cells = [int(k) for k in np.where(rel > 0.05)[0]]
    # merge neighbouring cells (one discontinuity can fall on a grid point)
    groups = []
    for k in cells:
        if groups and k - groups[-1][-1] <= 1:
            groups[-1].append(k)
        else:
            groups.append([k])
    if not groups:
        raise Skip("no_shock_in_scan")
    main = max(groups, key=lambda gr: abs(u[gr[-1] + 1] - u[gr[0]]))
    f = 0.05
    for gr in groups:
        a0, b0 = xs[gr[0]], xs[gr[-1] + 1]
        r0 = 0.5 * (a0 + b0)
        xs3 = []
        for tl in (tL * (1 - f), tL, tL * (1 + f)):
            tt = FACTOR_C * (tl + 1.0)
            got = _gud_locate(ctx, s, tt, 0.75 * a0, 1.3 * b0, levels=5, n=40)
            if got is None:
                xs3 = None
                break
            xs3.append(got[0])
        if xs3 is None:
            ctx.count("guderley_front_left_bracket")
            continue
        # self-similar trajectory r_s = C |t_L|^(1/lambda'): exponent from the two outer locations (no
        # truncation error), front speed dr_s/dt_L = r_s/(lambda' t_L) at the middle one
        inv_lam = math.log(xs3[2] / xs3[0]) / math.log((1 + f) / (1 - f))
        D = inv_lam * xs3[1] / tL
        eps = 1e-6 * xs3[1]
        sol = ctx.call(s, np.array([xs3[1] - eps, xs3[1] + eps]), t)
        L, R = state(sol, 0), state(sol, 1)
        kind = "%s shock" % p["which"] if gr is main else "secondary discontinuity (%s)" % p["which"]
        jumps(ctx, "Guderley", "%s g=%d" % (kind, p["geom"]), L, R, D, 2e-5,
              detail=dict(gamma=g, geometry=p["geom"], one_over_lambda=inv_lam, t=t, t_lazarus=tL, r=xs3[1],
                          x_similarity=tL / xs3[1] ** (1.0 / inv_lam) if inv_lam > 0 else None))


# ---- RMTV ----------------------------------------------------------------------------------------------------------
def gen_rmtv(rng, i, tier):
    return dict(kw=C.gen_rmtv(rng, None))


def run_rmtv(ctx, p):
    from exactpack.solvers.rmtv.rmtv import Rmtv
    kw = p["kw"]
    s = ctx.make(Rmtv, **kw)
    rf = kw["rf"]
    rs = rf * s.xis / s.xif

    def f(x):
        return float(ctx.call(s, np.array([x]), 1.0)["velocity"][0])
    # the isothermal shock: velocity (and density) jump near r_s = rf*xis/xif
    a, b = 0.8 * rs, 1.2 * rs
    va, vb = f(a), f(b)
    xs = np.linspace(a, b, 81)
    vv = np.array([f(x) for x in xs])
    j = int(np.argmax(np.abs(np.diff(vv))))
    lo, hi = xs[j], xs[j + 1]
    vlo = f(lo)
    vhi = f(hi)
    thr = 0.5 * (vlo + vhi)
    g = lambda x: f(x) > thr     # noqa: E731
    lo, hi = bisect_change(g, lo, hi, rel=1e-11)
    x0 = 0.5 * (lo + hi)
    ctx.observe("rh.located", "Rmtv", abs(x0 - rs) <= 1e-6 * rs, branch="r_s=rf xis/xif", measure=abs(x0 / rs - 1), tol=1e-6)
    sol = ctx.call(s, np.array([x0 * (1 - 1e-8), x0 * (1 + 1e-8)]), 1.0)
    r1, r2 = float(sol["density"][0]), float(sol["density"][1])
    u1, u2 = float(sol["velocity"][0]), float(sol["velocity"][1])
    p1, p2 = float(sol["pressure"][0]), float(sol["pressure"][1])
    T1, T2 = float(sol["temperature"][0]), float(sol["temperature"][1])
    lhs, rhs = (u1 - u2) ** 2, (p2 - p1) * (1.0 / r1 - 1.0 / r2)
    ctx.observe("rh.momentum", "Rmtv", abs(lhs - rhs) <= 1e-6 * max(abs(lhs), abs(rhs)), branch="(u1-u2)^2=(p2-p1)(1/rho1-1/rho2)",
                measure=abs(lhs - rhs) / max(abs(lhs), abs(rhs), 1e-300), tol=1e-6,
                detail=dict(params=kw, left=[r1, u1, p1, T1], right=[r2, u2, p2, T2]), nontrivial=abs(r1 - r2) > 1e-6 * r1)
    ctx.observe("rh.contact", "Rmtv", abs(T1 - T2) <= 1e-6 * max(T1, T2), branch="isothermal shock: [T]=0",
                measure=abs(T1 - T2) / max(T1, T2, 1e-300), tol=1e-6, nontrivial=abs(r1 - r2) > 1e-6 * r1)


def reach(tot, tier):
    out = []
    seen = set(k.split("|")[1] for k, st in tot["stats"].items() if st["held"] + st["violated"] > 0)
    for c in ("Noh", "Cog19", "Cog20", "Cog21", "NohBlackBoxEos", "IGEOS_Solver", "GenEOS_Solver", "Sedov", "EPpiston",
              "SteadyDetonationReactionZone", "EscapeOfHEProducts", "Mader", "Guderley", "Rmtv"):
        if c not in seen:
            out.append("no jump condition evaluated for %s" % c)
    return out


UNITS = [
    Unit("closed", gen_closed, run_closed, quick=160, thorough=3200, min_nontrivial=200),
    Unit("bbnoh", gen_bb, run_bb, quick=96, thorough=1920, min_nontrivial=100),
    Unit("riemann.igeos", gen_rm("IGEOS"), run_rm, quick=200, thorough=4000, min_nontrivial=300),
    Unit("riemann.geneos", gen_rm("GenEOS"), run_rm, quick=12, thorough=160, min_nontrivial=10),
    Unit("sedov", gen_sedov, run_sedov, quick=16, thorough=240, min_nontrivial=30),
    Unit("piston", gen_pis, run_pis, quick=120, thorough=2400, min_nontrivial=200),
    Unit("sdrz", gen_sdrz, run_sdrz, quick=80, thorough=1600, min_nontrivial=100),
    Unit("ehep", gen_ehep, run_ehep, quick=60, thorough=1200, min_nontrivial=100),
    Unit("mader", gen_mader, run_mader, quick=60, thorough=1200, min_nontrivial=100),
    Unit("guderley", gen_gud, run_gud, quick=32, thorough=320, min_nontrivial=40),
    Unit("rmtv", gen_rmtv, run_rmtv, quick=8, thorough=80, min_nontrivial=8),
]

"""C19 - 2-D steady Riemann problem: oblique-shock / Prandtl-Meyer relations; balanced slip line.

All on the fields returned by the public call at points on a circle around the corner:
  r2d.consistent   speed = |(u,v)|, Mach = speed / sqrt(gamma p / rho), e = p/((gamma-1) rho) at every point
  r2d.slip         equal pressure and equal flow direction on the two sides of the slip line
  r2d.shock        for each shock, from (M1, gamma, p2/p1): density ratio, downstream Mach number, turning
                   angle (theta-beta-M) and the shock's *position*, located by bisection on the polar angle of
                   the returned fields, equal to upstream flow angle -/+ beta
  r2d.fan          (also: the state at an interior ray asked for alone equals its state in the 73-point scan)
  r2d.fan          isentropy and constant total enthalpy across each fan (end states and interior points),
                   turning = nu(M2) - nu(M1) with the true Prandtl-Meyer function, and every interior ray
                   a characteristic: polar angle = flow angle -/+ Mach angle
"""
import math

import numpy as np

from ..core import Unit, Skip, SolverRaised, logu, uni, choice, sgn
from ..oracles import bisect_change

RULE = ("random supersonic state pairs (M 1.5-8, flow angles +-15 deg incl. 0, unequal gammas, pressure/density ratios "
        "over a decade; every tenth pair with pressures equal to within 1e-8..1e-3: weak waves), 72 polar angles per configuration plus located wave positions; configurations the solver "
        "cannot solve raise and are counted.  distinct = (monitor, morphology+relation, case).")
ASSUME = ["regions are identified from the returned fields themselves (constant states by equality with the far-field "
          "values, waves by bisection on polar angle)", "gamma of a point: bottom gamma below the slip line, top above"]


def nu(M, g):
    a = math.sqrt((g + 1.0) / (g - 1.0))
    b = math.sqrt(M * M - 1.0)
    return a * math.atan(b / a) - math.atan(b)


def gen(rng, i, tier):
    def st(ang):
        return [logu(rng, 0.3, 3.0), logu(rng, 0.3, 3.0), uni(rng, 1.5, 8.0), ang, uni(rng, 1.15, 1.67)]
    mode = i % 4
    if mode == 0:
        aB = aT = 0.0
    elif mode == 1:
        aB = aT = uni(rng, -15, 15)
    else:
        aB, aT = uni(rng, -15, 15), uni(rng, -15, 15)
    b, t = st(aB), st(aT)
    if i % 5 == 0:
        t[4] = b[4]
    if i % 6 == 4:
        # strong waves: one stream at 30 times the pressure of the other (deep fans, strong shocks)
        k = 30.0 if rng.random() < 0.5 else 1.0 / 30.0
        t[0] = b[0] * k * uni(rng, 0.5, 2.0)
    if i % 10 == 9:
        # weak waves: star pressure within 1e-8 .. 1e-3 of the initial pressures (the classification of a wave as shock
        # or fan is decided by which side of an initial pressure the star pressure lies)
        t[0] = b[0] * (1.0 + sgn(rng) * 10.0 ** uni(rng, -8, -3))
        t[3] = b[3]
    return dict(bottom_state=b, top_state=t)


def fields_at(ctx, s, phis, r=1.0):
    pts = np.stack([r * np.cos(phis), r * np.sin(phis)], axis=1)
    sol = ctx.call(s, pts, 0.25)
    return {n: np.asarray(sol[n], float) for n in sol.dtype.names}


def one(ctx, s, phi):
    f = fields_at(ctx, s, np.array([phi]))
    return {k: float(v[0]) for k, v in f.items()}


def run(ctx, p):
    from exactpack.solvers.riemann2D_2section_steadystate.ep_riemann2D_2section_steadystate import IGEOS_Solver
    B, T = p["bottom_state"], p["top_state"]
    s = ctx.make(IGEOS_Solver, bottom_state=list(B), top_state=list(T))
    name = "IGEOS_Solver(2D)"
    phis = np.linspace(-1.35, 1.35, 73)
    F = fields_at(ctx, s, phis)
    morph = str(s.morphology)
    cd = float(s.angles["CD"])
    pB, rB, MB, aB, gB = B
    pT, rT, MT, aT, gT = T
    thB, thT = math.radians(aB), math.radians(aT)
    ang0 = "angles=0" if aB == 0 and aT == 0 else ("equal angles" if aB == aT else "different angles")
    det = dict(bottom_state=B, top_state=T, morphology=morph, slip_angle=cd)
    # ---- pointwise consistency -----------------------------------------------------------------------------------
    g = np.where(phis < cd, gB, gT)
    on_cd = np.abs(phis - cd) < 1e-9
    c = np.sqrt(g * F["pressure"] / F["density"])
    r1 = np.abs(F["speed"] - np.hypot(F["x_velocity"], F["y_velocity"])) / F["speed"]
    r2 = np.abs(F["Mach"] - F["speed"] / c) / F["Mach"]
    r3 = np.abs(F["specific_internal_energy"] - F["pressure"] / F["density"] / (g - 1.0)) / F["specific_internal_energy"]
    m = ~on_cd
    worst = float(max(r1[m].max(), r2[m].max(), r3[m].max()))
    ctx.observe("r2d.consistent", name, worst <= 1e-9, branch="%s %s" % (morph, ang0), measure=worst, tol=1e-9,
                detail=dict(det, worst_speed=float(r1[m].max()), worst_mach=float(r2[m].max()), worst_sie=float(r3[m].max())))
    # ---- the same rays in a scrambled order: the state of a ray does not depend on the order of the request ------------------------
    perm = np.random.default_rng(73).permutation(len(phis))
    G = fields_at(ctx, s, phis[perm])
    inv = np.argsort(perm)
    dsc = 0.0
    for f in ("pressure", "density", "Mach", "x_velocity", "y_velocity"):
        a_, b_ = F[f], G[f][inv]
        dsc = max(dsc, float(np.max(np.abs(a_ - b_) / np.maximum(np.abs(a_), 1e-300))))
    ctx.observe("r2d.consistent", name, dsc <= 1e-9, branch="scan in scrambled order = ascending scan %s" % morph, measure=dsc, tol=1e-9, detail=det)
    # ---- slip line ---------------------------------------------------------------------------------------------------
    lo, hi = one(ctx, s, cd - 1e-6), one(ctx, s, cd + 1e-6)
    dp = abs(lo["pressure"] - hi["pressure"]) / max(lo["pressure"], hi["pressure"])
    dth = abs(math.atan2(lo["y_velocity"], lo["x_velocity"]) - math.atan2(hi["y_velocity"], hi["x_velocity"]))
    ctx.observe("r2d.slip", name, dp <= 1e-9, branch="[p]=0 " + morph, measure=dp, tol=1e-9, detail=det)
    ctx.observe("r2d.slip", name, dth <= 1e-9, branch="[flow angle]=0 " + morph, measure=dth, tol=1e-9, detail=det)
    dsl = abs(math.atan2(lo["y_velocity"], lo["x_velocity"]) - cd)
    ctx.observe("r2d.slip", name, dsl <= 1e-9, branch="slip line along the star flow " + morph, measure=dsl, tol=1e-9, detail=det)
    star = {"B": lo, "T": hi}
    # ---- waves -----------------------------------------------------------------------------------------------------
    for side, st0, th0, sgn in (("B", B, thB, -1.0), ("T", T, thT, +1.0)):
        p0, r0, M0, _, g0 = st0
        S = star[side]
        kind = morph[0] if side == "B" else morph[4]
        alpha = S["pressure"] / p0
        th_star = math.atan2(S["y_velocity"], S["x_velocity"])
        turning = abs(th_star - th0)
        br = "%s %s %s" % ("bottom" if side == "B" else "top", "shock" if kind == "S" else "fan", ang0)
        if kind == "S":
            M1n2 = ((g0 + 1.0) * alpha + g0 - 1.0) / (2.0 * g0)
            if M1n2 > M0 * M0 or M1n2 < 1 - 1e-9:
                ctx.observe("r2d.shock", name, False, branch="normal Mach number admissible " + br, measure=M1n2, detail=det)
                continue
            M1n2 = max(M1n2, 1.0)
            beta = math.asin(math.sqrt(M1n2) / M0)
            rr = (g0 + 1.0) * M1n2 / ((g0 - 1.0) * M1n2 + 2.0)
            delta = math.atan(2.0 / math.tan(beta) * (M1n2 - 1.0) / (M0 * M0 * (g0 + math.cos(2 * beta)) + 2.0))
            M2n2 = (1.0 + 0.5 * (g0 - 1.0) * M1n2) / (g0 * M1n2 - 0.5 * (g0 - 1.0))
            M2 = math.sqrt(M2n2) / math.sin(beta - delta)
            ctx.observe("r2d.shock", name, abs(S["density"] / r0 - rr) <= 1e-8 * rr, branch="density ratio " + br, measure=abs(S["density"] / r0 / rr - 1), tol=1e-8, detail=det)
            ctx.observe("r2d.shock", name, abs(S["Mach"] - M2) <= 1e-8 * M2, branch="downstream Mach " + br, measure=abs(S["Mach"] / M2 - 1), tol=1e-8, detail=det)
            ctx.observe("r2d.shock", name, abs(turning - delta) <= 1e-8, branch="turning (theta-beta-M) " + br, measure=abs(turning - delta), tol=1e-8,
                        detail=dict(det, turning=turning, delta=delta, beta=beta))
            # position of the discontinuity in the returned fields
            want = th0 + sgn * beta
            a_, b_ = (want - 0.4, cd - 1e-6) if side == "B" else (cd + 1e-6, want + 0.4)
            a_, b_ = max(a_, -1.5), min(b_, 1.5)

            def lab(phi):
                return abs(one(ctx, s, phi)["pressure"] - p0) <= 1e-12 * p0
            if lab(a_) == lab(b_):
                ctx.observe("r2d.shock", name, False, branch="shock located " + br, detail=dict(det, note="no pressure jump between far field and slip line", bracket=[a_, b_]))
                continue
            l_, h_ = bisect_change(lab, a_, b_, rel=1e-12)
            pos = 0.5 * (l_ + h_)
            ctx.observe("r2d.shock", name, abs(pos - want) <= 1e-7, branch="shock position = flow angle -/+ beta " + br, measure=abs(pos - want), tol=1e-7,
                        detail=dict(det, located=pos, expected=want, beta=beta, upstream_flow_angle=th0))
        else:
            # end states: isentropic, isoenergetic, Prandtl-Meyer turning
            K0, Ks = p0 / r0 ** g0, S["pressure"] / S["density"] ** g0
            c0 = math.sqrt(g0 * p0 / r0)
            H0 = c0 * c0 / (g0 - 1.0) + 0.5 * (M0 * c0) ** 2
            cs_ = math.sqrt(g0 * S["pressure"] / S["density"])
            Hs = cs_ * cs_ / (g0 - 1.0) + 0.5 * S["speed"] ** 2
            ctx.observe("r2d.fan", name, abs(Ks / K0 - 1) <= 1e-9, branch="isentropic " + br, measure=abs(Ks / K0 - 1), tol=1e-9, detail=det)
            ctx.observe("r2d.fan", name, abs(Hs / H0 - 1) <= 1e-9, branch="total enthalpy " + br, measure=abs(Hs / H0 - 1), tol=1e-9, detail=det)
            dnu = nu(S["Mach"], g0) - nu(M0, g0)
            ctx.observe("r2d.fan", name, abs(turning - dnu) <= 1e-7, branch="turning = nu(M2)-nu(M1) " + br, measure=abs(turning - dnu), tol=1e-7,
                        detail=dict(det, turning=turning, nu_difference=dnu, M1=M0, M2=S["Mach"]))
            # interior rays (from the 73-point scan): neither far-field nor star pressure
            inside = (np.abs(F["pressure"] - p0) > 1e-9 * p0) & (np.abs(F["pressure"] - S["pressure"]) > 1e-9 * p0) & ((phis < cd) if side == "B" else (phis > cd))
            if inside.any():
                Ki = F["pressure"][inside] / F["density"][inside] ** g0
                ci2 = g0 * F["pressure"][inside] / F["density"][inside]
                Hi = ci2 / (g0 - 1.0) + 0.5 * F["speed"][inside] ** 2
                ctx.observe("r2d.fan", name, float(np.max(np.abs(Ki / K0 - 1))) <= 1e-8, branch="interior isentropic " + br, measure=float(np.max(np.abs(Ki / K0 - 1))), tol=1e-8, detail=det)
                ctx.observe("r2d.fan", name, float(np.max(np.abs(Hi / H0 - 1))) <= 1e-8, branch="interior total enthalpy " + br, measure=float(np.max(np.abs(Hi / H0 - 1))), tol=1e-8, detail=det)
                thi = np.arctan2(F["y_velocity"][inside], F["x_velocity"][inside])
                mui = np.arcsin(1.0 / F["Mach"][inside])
                ray = thi + sgn * mui
                dev = float(np.max(np.abs(ray - phis[inside])))
                ctx.observe("r2d.fan", name, dev <= 1e-6, branch="interior rays are characteristics " + br, measure=dev, tol=1e-6,
                            detail=dict(det, n=int(inside.sum())))
                # the state at an interior ray does not depend on which other rays were asked for: three of them alone
                idx = np.where(inside)[0]
                pick = idx[[0, len(idx) // 2, -1]] if len(idx) >= 3 else idx
                dev1 = 0.0
                for k_ in pick:
                    alone = one(ctx, s, float(phis[k_]))
                    dev1 = max(dev1, abs(alone["pressure"] - F["pressure"][k_]) / F["pressure"][k_], abs(alone["Mach"] - F["Mach"][k_]) / F["Mach"][k_])
                ctx.observe("r2d.fan", name, dev1 <= 1e-8, branch="interior state alone = in the scan " + br, measure=dev1, tol=1e-8,
                            detail=dict(det, rays=[float(phis[k_]) for k_ in pick], pressure_ratio_across_fan=float(S["pressure"] / p0)))
            else:
                ctx.count("fan_without_interior_sample")


UNITS = [Unit("config", gen, run, quick=160, thorough=3200, min_nontrivial=500)]

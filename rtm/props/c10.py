"""C10 - self-similar problems return self-similar fields with the documented exponents.

Pairs of public calls at (x, t) and at the similarity image (x', t'):
  sim.xt      Riemann (both solvers), Noh, Cog19, EHEP region I: f(xd0 + (x-xd0) t'/t, t') == f(x, t)
              Mader: the whole cell grid scaled with t (cell size too)
  sim.sedov   equal r/r_shock(t) on node-aligned grids: rho ratio (t'/t)^(-2 omega/(k+2-omega)),
              u ratio (r2'/t')/(r2/t), p ratio = rho ratio * u ratio^2, r2 ~ t^(2/(k+2-omega))
  sim.guderley equal t_L/r^lambda: u, c ~ r^(1-lambda); p, e ~ r^(2(1-lambda)); rho unchanged; lambda read
              back from the solver's own two-point ratios must be one constant equal to eexp()'s value
"""
import math

import numpy as np

from ..core import Unit, Skip, SolverRaised, logu, uni, choice
from .. import catalogue as C
from .. import riemann_common as RC
from .c07 import cmp

RULE = ("random admissible parameters, time ratios t'/t in [0.1,10], similarity coordinates across every region, "
        "all geometries.  distinct = (monitor, class, branch, case); non-trivial = fields not constant over the points.")
ASSUME = ["GenEOS: the solver window is scaled with t as well, so that its internal grid keeps the same similarity "
          "coordinates; the solver pads its window relative to the origin (not to the membrane), so the grids are only nearly similar: tolerance 2e-5 (interpolation resolution)",
          "Sedov: radii are exact node positions of the internal 3001-point grid at both times"]

F4 = ("density", "velocity", "pressure", "specific_internal_energy")
FACTOR_C = 0.750024322


def gen_rm(which):
    def g(rng, i, tier):
        st = RC.gen_state(rng)
        xd0, t = RC.gen_frame(rng, st)
        return dict(which=which, st=st, xd0=xd0, t=t, ratio=logu(rng, 0.1, 10), fr=[uni(rng, 0.02, 0.98) for _ in range(8)])
    return g


def run_rm(ctx, p):
    which, st, xd0, t, q = p["which"], p["st"], p["xd0"], p["t"], p["ratio"]
    gen = which == "GenEOS"
    pat, V = RC.probe(ctx, "IGEOS", st, xd0, t)
    span = max(float(V.max() - V.min()), 1e-3 * (abs(V).max() + 1e-300)) * t
    a, b = xd0 + t * V.min() - 0.4 * span, xd0 + t * V.max() + 0.4 * span
    cell = RC.geneos_cell(ctx, st, xd0, a, b, t) if gen else (b - a) / 10000.0
    X = [a] + [xd0 + t * v for v in V] + [b]
    pts = []
    m = 3.5 * cell if gen else 1e-9 * span
    for k in range(len(X) - 1):
        lo, hi = X[k] + m, X[k + 1] - m
        if hi > lo:
            pts.extend(lo + f * (hi - lo) for f in p["fr"])
    x = np.array(sorted(pts))
    s1 = RC.make_solver(ctx, which, st, xd0, a, b)
    # the window (xmin, xmax) is not part of the similarity map: the second solver's window is not the image of the first
    # one's (ideal-gas solver: an unrelated window that contains the points; general solver: the image, so that its grid
    # resolves the waves equally, with different margins on the two sides)
    a2, b2 = xd0 + (a - xd0) * q, xd0 + (b - xd0) * q
    if gen:
        a2, b2 = a2 - 0.03 * span * q, b2 + 0.11 * span * q
    else:
        a2, b2 = min(a, a2) - 0.3 * span * max(q, 1.0), max(b, b2) + 0.9 * span * max(q, 1.0)
    s2 = RC.make_solver(ctx, which, st, xd0, a2, b2)
    A = ctx.call(s1, x, t)
    B = ctx.call(s2, xd0 + (x - xd0) * q, t * q)
    cs = math.sqrt(st["gl"] * st["pl"] / st["rl"]) + math.sqrt(st["gr"] * st["pr"] / st["rr"])
    tol, extra = (2e-5 if gen else 1e-10), {}
    if gen:
        # the general-EOS solver returns values interpolated linearly on its own grid, and the two solvers' grids are not
        # images of each other: inside a fan that spans N cells the interpolation error is ~ (1/N)^2 / 8 of the variation
        # across the fan (measured 2.2e-5 for N = 49; doubling the table resolution num_int_pts changes 9e-8, so the
        # tables are not what limits it).  Resolution-based allowance for the narrowest fan: 0.25 / N^2.
        fans = ([(V[1] - V[0]) * t / cell] if pat[0] == "R" else []) + ([(V[-1] - V[-2]) * t / cell] if pat[2] == "R" else [])
        if fans:
            nmin = max(min(fans), 1.0)
            tol, extra = tol + 0.25 / nmin ** 2, dict(cells_in_narrowest_fan=nmin)
    cmp(ctx, "sim.xt", which + "_Solver", pat, A, B, F4, tol,
        detail=dict(st=st, xd0=xd0, t=t, ratio=q, **extra), scales=dict(velocity=cs))
    v1, v2 = np.asarray(s1.Vregs, float), np.asarray(s2.Vregs, float)
    ctx.observe("sim.xt", which + "_Solver", len(v1) == len(v2) and float(np.max(np.abs(v1 - v2))) <= 1e-12 * cs,
                branch="wave speeds independent of t " + pat, measure=float(np.max(np.abs(v1 - v2))) / cs if len(v1) == len(v2) else None, tol=1e-12)


# ---- Noh, Cog19 --------------------------------------------------------------------------------------------------
def gen_noh(rng, i, tier):
    return dict(entry=["Noh", "Cog19"][i % 2], seed=int(rng.integers(2 ** 31)), ratio=logu(rng, 0.1, 10))


def run_noh(ctx, p):
    ent = p["entry"]
    cls = C.load(C.CAT[ent]["path"])
    rng = np.random.default_rng(p["seed"])
    d = C.draw(ctx, cls, ent, rng, n=16)
    if d is None:
        raise Skip("no_admissible_draw")
    s, r, t, q = d["solver"], d["points"], d["t"], p["ratio"]
    B = ctx.call(s, r * q, t * q)
    names = [n for n in d["sol"].dtype.names if n != "position"]
    cmp(ctx, "sim.xt", type(s).__name__, "g=%d" % d["geom"], d["sol"], B, names, 1e-12,
        detail=dict(params={k: v for k, v in d["passed"].items() if isinstance(v, (int, float))}, t=t, ratio=q))


# ---- EHEP region I --------------------------------------------------------------------------------------------------
def gen_ehep(rng, i, tier):
    return dict(kw=C.gen_ehep(rng, 1), f=uni(rng, 0.1, 0.45), ratio=uni(rng, 1.1, 2.0), xs=[uni(rng, 0.0, 1.0) for _ in range(12)])


def run_ehep(ctx, p):
    from exactpack.solvers.ehep.ehep import EscapeOfHEProducts
    kw = p["kw"]
    s = ctx.make(EscapeOfHEProducts, **kw)
    D, xt = kw["D"], kw["xtilde"]
    t = p["f"] * xt / D
    q = p["ratio"]
    x = np.array(sorted(p["xs"])) * D * t
    A = ctx.call(s, x, t)
    B = ctx.call(s, x * q, t * q)
    inI = np.array([str(a) == "I" and str(b) == "I" for a, b in zip(A["region"], B["region"])])
    if not inI.any():
        raise Skip("no_point_in_region_I_at_both_times")
    names = ("density", "pressure", "specific_internal_energy", "sound_speed", "velocity")
    Am = {n: np.asarray(A[n], float)[inI] for n in names}
    Bm = {n: np.asarray(B[n], float)[inI] for n in names}
    cmp(ctx, "sim.xt", "EscapeOfHEProducts", "region I", Am, Bm, names, 1e-12, detail=dict(kw=kw, t=t, ratio=q, n=int(inI.sum())),
        scales=dict(velocity=D))


# ---- Mader -----------------------------------------------------------------------------------------------------------
def gen_mader(rng, i, tier):
    kw = C.gen_mader(rng, None)
    return dict(kw=kw, t=logu(rng, 1e-6, 1e-5) * (1.0 if kw["d_cj"] > 100.0 else 1e6), n=int(choice(rng, [50, 200, 1000])), ratio=logu(rng, 0.1, 10))


def run_mader(ctx, p):
    from exactpack.solvers.mader.timmes import Mader
    kw, t, n, q = p["kw"], p["t"], p["n"], p["ratio"]
    s = ctx.make(Mader, **kw)
    dx = kw["d_cj"] * t / n
    x = dx * (np.arange(n) + 0.5)
    A = ctx.call(s, x, t)
    B = ctx.call(s, x * q, t * q)
    names = ("velocity", "pressure", "sound_speed", "density")
    cmp(ctx, "sim.xt", "Mader", "gamma=3" if kw["gamma"] == 3.0 else "gamma!=3", A, B, names, 1e-9,
        detail=dict(kw=kw, t=t, n=n, ratio=q), scales=dict(velocity=kw["d_cj"]))


# ---- Sedov ------------------------------------------------------------------------------------------------------------
def gen_sedov(rng, i, tier):
    geom = 1 + i % 3
    return dict(geom=geom, kw=C.gen_sedov(rng, geom), t=logu(rng, 0.2, 3), ratio=logu(rng, 0.1, 10))


def run_sedov(ctx, p):
    from exactpack.solvers.sedov.sedov import Sedov
    geom, kw, t, q = p["geom"], p["kw"], p["t"], p["ratio"]
    s = ctx.make(Sedov, geometry=geom, **kw)
    ctx.call(s, np.array([1.0]), t)
    r2a = float(s.r2)
    ctx.call(s, np.array([1.0]), t * q)
    r2b = float(s.r2)
    xg2 = geom + 2.0 - kw["omega"]
    br = "g=%d %s" % (geom, s.solution_type)
    ctx.observe("sim.sedov", "Sedov", abs(r2b / r2a - q ** (2.0 / xg2)) <= 1e-12 * q ** (2.0 / xg2), branch="r2~t^(2/(k+2-omega)) " + br,
                measure=abs(r2b / r2a / q ** (2.0 / xg2) - 1), tol=1e-12, detail=dict(kw=kw, t=t, ratio=q))
    idx = np.arange(1, 3001)
    fa, fb = 0.98 * r2a, 0.98 * r2b
    A = ctx.call(s, idx * (fa / 3000.0), t)
    B = ctx.call(s, idx * (fb / 3000.0), t * q)
    # skip the truncated inner core (see C01): density exactly collinear there
    da = np.asarray(A["density"], float)
    dd = np.abs(np.diff(da, 2)) / (np.abs(da[1:-1]) + 1e-300)
    j = 0
    while j < len(dd) and dd[j] < 1e-7:
        j += 1
    sl = slice(j + 40, None)
    if 3000 - (j + 40) < 100:
        raise Skip("core_too_large")
    rr = (r2b / r2a) ** (-kw["omega"])
    ur = (r2b / (t * q)) / (r2a / t)
    want = {"density": rr, "velocity": ur, "pressure": rr * ur * ur, "specific_internal_energy": ur * ur, "sound_speed": ur}
    worst, wf = 0.0, None
    for f, ratio in want.items():
        a = np.asarray(A[f], float)[sl] * ratio
        b = np.asarray(B[f], float)[sl]
        m = np.isfinite(a) & np.isfinite(b)
        sc = np.maximum(np.abs(a), np.abs(b))[m]
        d = float(np.max(np.abs(a - b)[m] / np.where(sc > 0, sc, 1.0))) if m.any() else 0.0
        if d > worst:
            worst, wf = d, f
    # node values are only as accurate as the solver's fminbound root (sqrt(eps)-type), steep near thin shells
    ctx.observe("sim.sedov", "Sedov", worst <= 2e-5, branch="fields at equal r/r2 " + br, measure=worst, tol=2e-5,
                detail=dict(kw=kw, t=t, ratio=q, worst_field=wf, core_nodes=j))


# ---- Guderley ----------------------------------------------------------------------------------------------------------
def gen_gud(rng, i, tier):
    return dict(geom=2 + i % 2, gamma=choice(rng, [2.0, 2.5, 3.0, 6.0]), rho0=logu(rng, 0.1, 10),
                tL=choice(rng, [-uni(rng, 0.2, 0.9), uni(rng, 0.1, 0.9)]), ratio=logu(rng, 0.3, 3), r=[logu(rng, 0.2, 2) for _ in range(8)])


def run_gud(ctx, p):
    from exactpack.solvers.guderley.guderley import Guderley
    from exactpack.solvers.guderley.eexp import eexp
    s = ctx.make(Guderley, geometry=p["geom"], gamma=p["gamma"], rho0=p["rho0"])
    lam = float(ctx.quiet(eexp, p["geom"], p["gamma"]))
    tL, q = p["tL"], p["ratio"]
    r = np.array(sorted(p["r"]))
    t1 = FACTOR_C * (tL + 1.0)
    t2 = FACTOR_C * (tL * q + 1.0)
    r2 = r * q ** (1.0 / lam)                       # equal t_L / r^lambda
    A, B = ctx.call(s, r, t1), ctx.call(s, r2, t2)
    k = (r2 / r) ** (1.0 - lam)
    br = "g=%d %s" % (p["geom"], "before collapse" if tL < 0 else "after collapse")
    want = {"density": 1.0, "velocity": k, "sound_speed": k, "pressure": k * k, "specific_internal_energy": k * k}
    worst, wf = 0.0, None
    nontriv = False
    for f, ratio in want.items():
        a = np.asarray(A[f], float) * ratio
        b = np.asarray(B[f], float)
        sc = np.maximum(np.abs(a), np.abs(b))
        m = sc > 0
        if m.any():
            nontriv = True
            d = float(np.max(np.abs(a - b)[m] / sc[m]))
            if d > worst:
                worst, wf = d, f
    ctx.observe("sim.guderley", "Guderley", worst <= 1e-6, branch="power-law prefactors " + br, measure=worst, tol=1e-6, nontrivial=nontriv,
                detail=dict(gamma=p["gamma"], lam=lam, tL=tL, ratio=q, worst_field=wf))
    # lambda read back from the solver's own two-point velocity ratios
    ua, ub = np.asarray(A["velocity"], float), np.asarray(B["velocity"], float)
    m = (ua != 0) & (ub != 0) & (np.sign(ua) == np.sign(ub))
    if m.any() and abs(math.log(q)) > 0.05:
        lam_eff = 1.0 - np.log(ub[m] / ua[m]) / np.log(r2[m] / r[m])
        spread = float(np.max(np.abs(lam_eff - lam)))
        ctx.observe("sim.guderley", "Guderley", spread <= 1e-5, branch="lambda from two-point ratios == eexp " + br, measure=spread, tol=1e-5,
                    detail=dict(lam=lam, lam_eff=lam_eff.tolist()))


UNITS = [
    Unit("riemann.igeos", gen_rm("IGEOS"), run_rm, quick=300, thorough=6000, min_nontrivial=200),
    Unit("riemann.geneos", gen_rm("GenEOS"), run_rm, quick=16, thorough=200, min_nontrivial=10),
    Unit("noh", gen_noh, run_noh, quick=200, thorough=4000, min_nontrivial=150),
    Unit("ehep", gen_ehep, run_ehep, quick=100, thorough=2000, min_nontrivial=50),
    Unit("mader", gen_mader, run_mader, quick=100, thorough=2000, min_nontrivial=80),
    Unit("sedov", gen_sedov, run_sedov, quick=16, thorough=240, min_nontrivial=20),
    Unit("guderley", gen_gud, run_gud, quick=48, thorough=480, min_nontrivial=40),
]

"""C13 - burn times are causal first-arrival times of a front moving at speed D.

Monitors (all on the burntime field returned by the public call)
  det.value     T(x_det) == t_det (for a detonator no other front can reach first);
                T(x_det) <= t_det always
  causal.min    T >= earliest detonation time (and, Kenamond 1/3, >= t_d + |p-x_d|/D; Kenamond 3 with a blocked line of
                sight: >= t_d + (a geometric lower bound of the detour)/D)
  lipschitz     |T(p)-T(q)| <= |p-q|/D_slowest for a straight segment inside the explosive
                (inner sphere: D1; not crossing the inert obstacle for Kenamond 3)
  continuity    pairs 1e-7 apart across |p|=R (Kenamond 2), across the shadow boundary and
                around the antipode (Kenamond 3), across r=r_2 (DSD) differ by <= distance/D
  eikonal       |grad T| * D_local == 1 at smooth points (DSD: dT/dr (D_CJ - alpha/r) == 1),
                derivatives by 9-point differences with error bars; a kink inside the
                stencil shows up as a large error bar and is counted as non-smooth.
  finite        no NaN/inf burn time at any admissible point
"""
import math

import numpy as np

from ..core import Unit, Skip, SolverRaised, logu, uni, choice, sgn
from ..oracles import derivs9, OFF9

RULE = ("random detonator layouts meeting the documented conditions (slack 0..large), D1>=D2, 2-D "
        "and 3-D, random points in a box plus points on interfaces, on the shadow boundary and "
        "exactly/nearly antipodal to the detonator; distinct = (monitor, solver, branch, case); "
        "non-trivial = the compared burn times differ from the detonation time.")
ASSUME = ["a first-arrival field with local speed >= D_min is |p-q|/D_min-Lipschitz along straight "
          "segments inside the explosive", "gradients from 4th-order differences with Richardson error bars"]


def whole_or(rng, v):
    """one detonation time in four is a whole number given as a Python int (an array that takes its dtype from it truncates)"""
    return int(round(v)) if rng.random() < 0.25 else v


def unit_vec(rng, g):
    v = rng.normal(size=g)
    return v / np.linalg.norm(v)


def grad(ctx, s, p, h):
    """gradient of burntime at p with error estimate, one call"""
    g = len(p)
    pts = []
    for ax in range(g):
        for k in OFF9:
            q = np.array(p, dtype=float)
            q[ax] += k * h / 2
            pts.append(q)
    T = np.array(ctx.call(s, np.array(pts), 0.0)["burntime"], dtype=float).reshape(g, 9)
    _, d, e, _, _ = derivs9(T, h)
    return d, e


def eikonal(ctx, s, name, p, D, h, branch=""):
    try:
        d, e = grad(ctx, s, p, h)
    except SolverRaised:
        return
    gn = float(np.linalg.norm(d))
    err = float(np.linalg.norm(e))
    if not math.isfinite(gn):
        ctx.observe("finite", name, False, branch="gradient stencil " + branch, detail=dict(point=list(p)))
        return
    if err * D > 1e-4:
        ctx.count("eikonal_nonsmooth:" + name)
        return
    r = abs(gn * D - 1.0)
    ctx.observe("eikonal", name, r <= 1e-7 + 10 * err * D, branch=branch, measure=r, tol=1e-7,
                detail=dict(point=list(map(float, p)), grad_norm=gn, D=D, fd_err=err))


def T_of(ctx, s, pts):
    return np.array(ctx.call(s, np.atleast_2d(np.array(pts, dtype=float)), 0.0)["burntime"], dtype=float)


def finite(ctx, name, T, pts, branch=""):
    bad = ~np.isfinite(T)
    ctx.observe("finite", name, not bad.any(), branch=branch, measure=int(bad.sum()),
                detail=dict(first_bad=np.array(pts)[bad][:2].tolist() if bad.any() else None))


# ---- Kenamond 1 ------------------------------------------------------------------------------
def gen_k1(rng, i, tier):
    g = 2 + (i % 2)
    L = logu(rng, 1e-2, 1e3)
    return dict(geometry=g, D=logu(rng, 1e-2, 1e3), x_d=(rng.normal(size=g) * L).tolist(),
                t_d=whole_or(rng, uni(rng, -5, 5)), L=L, pts=(rng.normal(size=(40, g)) * L).tolist())


def run_k1(ctx, p):
    from exactpack.solvers.kenamond import Kenamond1
    g, D, td = p["geometry"], p["D"], p["t_d"]
    xd = np.array(p["x_d"])
    s = ctx.make(Kenamond1, geometry=g, D=D, x_d=tuple(p["x_d"]), t_d=td)
    pts = xd + np.array(p["pts"])
    T = T_of(ctx, s, pts)
    finite(ctx, "Kenamond1", T, pts)
    T0 = T_of(ctx, s, [xd])[0]
    ctx.observe("det.value", "Kenamond1", T0 == td, measure=abs(T0 - td), detail=dict(T=T0, t_d=td))
    dist = np.linalg.norm(pts - xd, axis=1)
    tscale = abs(td) + dist / D
    ok = np.all(np.abs(T - (td + dist / D)) <= 1e-13 * tscale)
    ctx.observe("causal.min", "Kenamond1", ok and np.all(T >= td), branch="T=t_d+|p-x_d|/D",
                measure=float(np.max(np.abs(T - (td + dist / D)) / tscale)), tol=1e-13,
                detail=dict(D=D, geometry=g))
    dT = np.abs(T[:, None] - T[None, :])
    dp = np.linalg.norm(pts[:, None, :] - pts[None, :, :], axis=2)
    ex = dT - dp / D
    tol = 1e-12 * (np.abs(T).max() + dp.max() / D)
    ctx.observe("lipschitz", "Kenamond1", float(ex.max()) <= tol, measure=float(ex.max()), tol=tol,
                detail=dict(pairs=int(dp.size)))
    for q in pts[:4]:
        eikonal(ctx, s, "Kenamond1", q, D, 1e-3 * max(np.linalg.norm(q - xd), 1e-300), "g=%d" % g)


# ---- Kenamond 2 ------------------------------------------------------------------------------
def gen_k2(rng, i, tier):
    g = 2 + (i % 2)
    R = logu(rng, 0.1, 10)
    D2 = logu(rng, 0.1, 10)
    D1 = D2 * choice(rng, [1.0, 1.0 + 1e-9, uni(rng, 1.01, 1.5), uni(rng, 1.5, 6.0)])
    a = [R * uni(rng, 1.05, 6), R * uni(rng, 1.05, 6), -R * uni(rng, 1.05, 6), -R * uni(rng, 1.05, 6)]
    if rng.random() < 0.5:
        a = [a[0] + a[1], a[1], a[2], a[2] + a[3]]
    rng.shuffle(a)
    t3 = uni(rng, -2, 2)
    slack = [choice(rng, [0.0, logu(rng, 1e-3, 1.0) * R / D2, logu(rng, 1, 20) * R / D2]) for _ in range(4)]
    tc = [t3 + R * (1 / D1 + 1 / D2) - abs(x) / D2 + sl for x, sl in zip(a, slack)]
    t_d = [tc[0], tc[1], t3, tc[2], tc[3]]
    box = 1.3 * max(abs(x) for x in a)
    return dict(geometry=g, R=R, D1=D1, D2=D2, dets=[float(x) for x in a], t_d=[float(x) for x in t_d],
                box=box, pseed=int(rng.integers(2 ** 31)))


def run_k2(ctx, p):
    from exactpack.solvers.kenamond import Kenamond2
    g, R, D1, D2 = p["geometry"], p["R"], p["D1"], p["D2"]
    # the documented condition is t_di >= bound; slack 0 sits on the bound and may be rejected by
    # one rounding error: nudge by a few ulp (still a layout that meets the condition)
    t_d = list(p["t_d"])
    for k in (0, 1, 3, 4):
        t_d[k] = t_d[k] + 4e-16 * (abs(t_d[k]) + R / D2)
    s = ctx.make(Kenamond2, geometry=g, R=R, D1=D1, D2=D2, dets=list(p["dets"]), t_d=t_d)
    rng = np.random.default_rng(p["pseed"])
    name = "Kenamond2"
    br = "g=%d,%s" % (g, "D1=D2" if D1 == D2 else "D1>D2")
    dets = np.zeros((5, g))
    for k, a in zip((0, 1, 3, 4), p["dets"]):
        dets[k, -1] = a
    # detonators
    Td = T_of(ctx, s, dets)
    finite(ctx, name, Td, dets, "detonators")
    for k in range(5):
        ctx.observe("det.value", name, Td[k] <= t_d[k] + 1e-13 * (abs(t_d[k]) + R / D2),
                    branch="T(x_d)<=t_d " + br, measure=Td[k] - t_d[k], detail=dict(det=k + 1))
        # nobody can arrive earlier than t_dk if t_dj + |x_dk-x_dj|/D1 >= t_dk for all j
        safe = all(t_d[j] + np.linalg.norm(dets[k] - dets[j]) / D1 >= t_d[k] for j in range(5) if j != k)
        if safe:
            ctx.observe("det.value", name, abs(Td[k] - t_d[k]) <= 1e-13 * (abs(t_d[k]) + R / D2),
                        branch="T(x_d)==t_d " + br, measure=abs(Td[k] - t_d[k]),
                        detail=dict(det=k + 1, T=Td[k], t_d=t_d[k]))
    # random points: box, inside sphere, on the interface
    n = 60
    box = rng.uniform(-p["box"], p["box"], size=(n, g))
    inner = np.array([unit_vec(rng, g) * R * rng.uniform(0, 1) ** (1.0 / g) for _ in range(n)])
    U = np.array([unit_vec(rng, g) for _ in range(20)])
    axis = np.vstack([np.eye(g) * R, -np.eye(g) * R])          # |p| == R exactly in floating point
    pts = np.vstack([box, inner, U * R, axis])
    T = T_of(ctx, s, pts)
    finite(ctx, name, T, pts, br)
    tmin = min(t_d)
    ctx.observe("causal.min", name, np.all(T >= tmin - 1e-13 * (abs(tmin) + R / D2)), branch=br,
                measure=float(tmin - T.min()), detail=dict(tmin=tmin))
    tscale = np.abs(T).max() + p["box"] / D2
    dT = np.abs(T[:, None] - T[None, :])
    dp = np.linalg.norm(pts[:, None, :] - pts[None, :, :], axis=2)
    ex = float((dT - dp / D2).max())
    ctx.observe("lipschitz", name, ex <= 1e-12 * tscale, branch="any segment, D2 " + br, measure=ex,
                tol=1e-12 * tscale, detail=dict(pairs=int(dp.size)))
    Ti = T[n:2 * n]
    dTi = np.abs(Ti[:, None] - Ti[None, :])
    dpi = np.linalg.norm(inner[:, None, :] - inner[None, :, :], axis=2)
    exi = float((dTi - dpi / D1).max())
    ctx.observe("lipschitz", name, exi <= 1e-12 * tscale, branch="inside sphere, D1 " + br, measure=exi,
                tol=1e-12 * tscale, detail=dict(pairs=int(dpi.size)))
    # continuity across the interface
    eps = 1e-7 * R
    Tin, Tout = T_of(ctx, s, U * (R - eps)), T_of(ctx, s, U * (R + eps))
    jump = float(np.max(np.abs(Tin - Tout)))
    ctx.observe("continuity", name, jump <= 2 * eps / D2 * (1 + 1e-6) + 1e-13 * tscale, branch="|p|=R " + br,
                measure=jump, tol=2 * eps / D2, detail=dict(R=R))
    # eikonal
    for q in box[:3]:
        Dloc = D1 if np.linalg.norm(q) < R else D2
        eikonal(ctx, s, name, q, Dloc, 1e-4 * R, "outer " + br if Dloc == D2 else "inner " + br)
    for q in inner[:3]:
        if 0.05 * R < np.linalg.norm(q) < 0.95 * R:
            eikonal(ctx, s, name, q, D1, 1e-4 * R, "inner " + br)


# ---- Kenamond 3 ------------------------------------------------------------------------------
def seg_clear(p, q, R):
    """distance from the origin to segment pq is >= R"""
    d = q - p
    L2 = float(np.dot(d, d))
    if L2 == 0:
        return np.linalg.norm(p) >= R
    t = min(1.0, max(0.0, -float(np.dot(p, d)) / L2))
    return np.linalg.norm(p + t * d) >= R * (1 + 1e-9)


def gen_k3(rng, i, tier):
    g = 2 + (i % 2)
    R = logu(rng, 0.1, 10)
    lod = R * choice(rng, [uni(rng, 1.01, 1.2), uni(rng, 1.2, 3), uni(rng, 3, 30)])
    style = choice(rng, ["random", "axis", "random"])
    if style == "axis":
        xd = np.zeros(g)
        xd[int(rng.integers(g))] = lod * sgn(rng)
    else:
        xd = unit_vec(rng, g) * lod
    return dict(geometry=g, R=R, D=logu(rng, 0.1, 10), x_d=[float(v) for v in xd], t_d=whole_or(rng, uni(rng, -2, 2)),
                pseed=int(rng.integers(2 ** 31)))


def k3_feature_points(xd, R, w):
    """points where the geometry of the obstacle problem changes character, in the plane spanned by the detonator
    direction and the unit vector w normal to it: rings hugging the obstacle all the way round, and fans of points on
    both sides of the two shadow-boundary rays (the tangents from the detonator), from the tangent point outwards"""
    lod = float(np.linalg.norm(xd))
    ed = xd / lod
    out = [R * (1.0 + e_) * (math.cos(a_) * ed + math.sin(a_) * w)
           for e_ in (1e-9, 1e-3, 0.05, 0.3) for a_ in np.linspace(0.0, 2 * math.pi, 36, endpoint=False) + 0.013]
    psi = math.acos(R / lod)
    for sg in (1.0, -1.0):
        a_t = R * (math.cos(psi) * ed + sg * math.sin(psi) * w)
        tdir = (a_t - xd) / np.linalg.norm(a_t - xd)
        nrm = a_t / R
        for sl in (1e-3, 1e-2, 0.05, 0.2, 0.6, 1.5, 4.0):
            for dl in (-0.1, -3e-2, -1e-3, -1e-6, 1e-6, 1e-3, 3e-2, 0.1):
                q = a_t + tdir * sl * R + nrm * dl * R * (1.0 + sl)
                if np.linalg.norm(q) > R * (1.0 + 1e-12):
                    out.append(q)
    return np.array(out)


def run_k3(ctx, p):
    from exactpack.solvers.kenamond import Kenamond3
    g, R, D, td = p["geometry"], p["R"], p["D"], p["t_d"]
    xd = np.array(p["x_d"])
    s = ctx.make(Kenamond3, geometry=g, R=R, D=D, x_d=tuple(p["x_d"]), t_d=td)
    rng = np.random.default_rng(p["pseed"])
    name, br = "Kenamond3", "g=%d" % g
    lod = float(np.linalg.norm(xd))
    ed = xd / lod
    T0 = T_of(ctx, s, [xd])[0]
    ctx.observe("det.value", name, abs(T0 - td) <= 1e-15 * abs(td), branch=br, measure=abs(T0 - td),
                detail=dict(T=T0, t_d=td))
    # ---- point families ---------------------------------------------------------------------
    box = []
    while len(box) < 60:
        q = rng.uniform(-2.5 * lod, 2.5 * lod, size=g)
        if np.linalg.norm(q) > R * 1.001:
            box.append(q)
    box = np.array(box)
    rad = R * np.array([1.0 + 1e-12, 1.001, 1.5, 2.0, 7.0, lod / R, 1.0 + rng.uniform(0, 3)])
    anti = np.array([-ed * r for r in rad])                      # exactly antipodal direction
    # perpendicular unit vector
    w = unit_vec(rng, g)
    w = w - np.dot(w, ed) * ed
    w = w / np.linalg.norm(w)
    near_anti = np.array([-ed * r + w * r * dlt for r in rad[1:] for dlt in (1e-9, 1e-7, 1e-4)])
    psi = math.acos(R / lod)
    a_t = R * (math.cos(psi) * ed + math.sin(psi) * w)           # tangent point
    tdir = (a_t - xd) / np.linalg.norm(a_t - xd)
    nrm = a_t / R                                                # outward normal at tangent point
    shadow = np.array([a_t + tdir * sl * R for sl in (1e-3, 0.1, 1.0, 5.0)])
    # points hugging the obstacle all the way round (in the plane of the detonator, the centre and w): the shadow
    # boundary, the plane through the centre normal to the detonator direction and the antipode are all crossed
    hug = k3_feature_points(xd, R, w)
    pts = np.vstack([box, anti, near_anti, shadow + nrm * 1e-9 * R, hug])
    T = T_of(ctx, s, pts)
    finite(ctx, name, T, pts, br)
    dist = np.linalg.norm(pts - xd, axis=1)
    tscale = abs(td) + dist.max() / D
    low = float(np.max((td + dist / D) - T))
    ctx.observe("causal.min", name, low <= 1e-12 * tscale, branch="T>=t_d+|p-x_d|/D " + br, measure=max(low, 0.0),
                tol=1e-12 * tscale, detail=dict(R=R, x_d=p["x_d"]))
    # blocked line of sight: the segment detonator -> p passes the centre at distance d < R, at its foot point c (a from the
    # detonator, b from p).  Every path around the obstacle crosses the plane through the centre normal to the segment at a
    # point at least h = R - d away from c, so its length is at least sqrt(a^2+h^2) + sqrt(b^2+h^2) > |p - x_d|.
    seg = pts - xd
    L_ = np.linalg.norm(seg, axis=1)
    sst = np.clip(-(seg @ xd) / np.maximum(L_ ** 2, 1e-300), 0.0, 1.0)
    cpt = xd + seg * sst[:, None]
    dmin = np.linalg.norm(cpt, axis=1)
    blocked = (dmin < R) & (sst > 0) & (sst < 1)
    if blocked.any():
        h_ = R - dmin[blocked]
        a_, b_ = sst[blocked] * L_[blocked], (1 - sst[blocked]) * L_[blocked]
        bound = np.sqrt(a_ ** 2 + h_ ** 2) + np.sqrt(b_ ** 2 + h_ ** 2)
        short = float(np.max((td + bound / D) - T[blocked]))
        k_ = int(np.argmax((td + bound / D) - T[blocked]))
        ctx.observe("causal.min", name, short <= 1e-12 * tscale, branch="blocked line of sight: T>=t_d+detour/D " + br, measure=max(short, 0.0), tol=1e-12 * tscale,
                    detail=dict(R=R, x_d=p["x_d"], D=D, t_d=td, point=pts[blocked][k_].tolist(), T=float(T[blocked][k_]), detour_bound=float(bound[k_]),
                                straight=float(L_[blocked][k_]), blocked_points=int(blocked.sum())))
    # upper bound: tangent - arc - tangent path is always admissible for shadowed points, and the
    # straight line for visible ones; the first-arrival time can never exceed the bound
    # |p-x_d| <= path <= l_da + R*pi + l_bp
    l_da = math.sqrt(lod ** 2 - R ** 2)
    l_bp = np.sqrt(np.maximum(np.linalg.norm(pts, axis=1) ** 2 - R ** 2, 0))
    up = float(np.max(T - (td + (l_da + math.pi * R + l_bp) / D)))
    ctx.observe("causal.min", name, up <= 1e-12 * tscale, branch="T<=t_d+(l_da+pi R+l_bp)/D " + br, measure=max(up, 0.0),
                tol=1e-12 * tscale)
    # Lipschitz for segments that do not cross the obstacle
    n = len(pts)
    worst, cnt, wit = -1e300, 0, None
    for i in range(n):
        for j in range(i + 1, n):
            if seg_clear(pts[i], pts[j], R):
                cnt += 1
                ex = abs(T[i] - T[j]) - np.linalg.norm(pts[i] - pts[j]) / D
                if ex > worst:
                    worst, wit = ex, (pts[i].tolist(), pts[j].tolist(), float(T[i]), float(T[j]))
    # alpha = arccos(cos) is ill-conditioned at the antipode: one rounding error in the cosine moves
    # the angle by sqrt(2 eps) = 2e-8 rad, i.e. the burn time by 2e-8 R/D.  That is the accuracy of the
    # documented formula, not a defect; the slack below is 1e-7 R/D (the defect this guards against,
    # a line-of-sight time through the obstacle, is O(R/D)).
    slack = 1e-7 * R / D
    ctx.observe("lipschitz", name, worst <= 1e-12 * tscale + slack, branch=br, measure=worst, tol=slack,
                detail=dict(pairs=cnt, witness=wit))
    # continuity: antipode and shadow boundary, pairs 1e-5 R apart
    eps = 1e-5 * R
    fam = {"antipode": np.vstack([anti[1:], near_anti]), "shadow-boundary": shadow}
    for k, P in fam.items():
        off = (w if k == "antipode" else nrm) * eps
        A, B = P + off, P - off
        keep = (np.linalg.norm(A, axis=1) > R) & (np.linalg.norm(B, axis=1) > R) & (np.linalg.norm(P, axis=1) > R)
        if not keep.any():
            continue
        TA, TB, TP = T_of(ctx, s, A[keep]), T_of(ctx, s, B[keep]), T_of(ctx, s, P[keep])
        jump = float(max(np.max(np.abs(TA - TP)), np.max(np.abs(TB - TP))))
        ok = jump <= eps / D * (1 + 1e-6) + 1e-13 * tscale + slack
        ctx.observe("continuity", name, ok and np.isfinite(jump), branch=k + " " + br, measure=jump, tol=eps / D,
                    detail=dict(R=R, x_d=p["x_d"], D=D, first_point=P[keep][0].tolist()))
    # the axis behind the obstacle (antipodal to the detonator) is a kink of the exact field - the fronts that went round
    # the obstacle on all sides meet there - and the documented arccos is ill-conditioned next to it: the eikonal
    # equation is probed 20 stencil steps (2e-3 r) away from it, where the field is smooth and well-conditioned (the error
    # bar flags most stencils that contain the kink, but not one that touches it with its last point)
    for q in list(box[:4]) + [-ed * r + w * r * 2e-3 for r in rad[1:3]]:
        eikonal(ctx, s, name, q, D, 1e-4 * R, br)


# ---- DSD cylindrical expansion ------------------------------------------------------------------
def gen_dsd(rng, i, tier):
    D1, D2 = logu(rng, 0.1, 10), logu(rng, 0.1, 10)
    a1 = choice(rng, [0.0, logu(rng, 1e-3, 1.0)])
    a2 = choice(rng, [0.0, logu(rng, 1e-3, 1.0)])
    r1 = a1 / D1 * uni(rng, 1.05, 10) if a1 > 0 else logu(rng, 0.1, 10)
    r2 = max(r1 * uni(rng, 1.05, 5), a2 / D2 * uni(rng, 1.05, 3))
    return dict(r_1=r1, r_2=r2, D_CJ_1=D1, D_CJ_2=D2, alpha_1=a1, alpha_2=a2, t_d=whole_or(rng, uni(rng, -2, 2)),
                pseed=int(rng.integers(2 ** 31)))


def run_dsd(ctx, p):
    from exactpack.solvers.dsd import CylindricalExpansion
    kw = {k: p[k] for k in ("r_1", "r_2", "D_CJ_1", "D_CJ_2", "alpha_1", "alpha_2", "t_d")}
    s = ctx.make(CylindricalExpansion, **kw)
    rng = np.random.default_rng(p["pseed"])
    name = "CylindricalExpansion"
    r1, r2, td = p["r_1"], p["r_2"], p["t_d"]
    ang = rng.uniform(0, 2 * math.pi, size=40)
    U = np.stack([np.cos(ang), np.sin(ang)], axis=1)
    rr = np.concatenate([rng.uniform(r1, r2, 20), rng.uniform(r2, 4 * r2, 20)])
    pts = U * rr[:, None]
    T = T_of(ctx, s, pts)
    finite(ctx, name, T, pts)
    tscale = abs(td) + float(np.max(np.abs(T - td)))
    Td = T_of(ctx, s, U[:5] * r1 * (1 + 1e-15))
    ctx.observe("det.value", name, np.all(np.abs(Td - td) <= 1e-12 * tscale), measure=float(np.max(np.abs(Td - td))),
                detail=dict(r_1=r1, t_d=td))
    ctx.observe("causal.min", name, np.all(T >= td), measure=float(td - T.min()))
    # continuity at r_2
    eps = 1e-7 * r2
    Ta, Tb = T_of(ctx, s, U[:8] * (r2 - eps)), T_of(ctx, s, U[:8] * (r2 + eps))
    vmin = min(p["D_CJ_1"] - p["alpha_1"] / (r2 - eps), p["D_CJ_2"] - p["alpha_2"] / r2)
    jump = float(np.max(np.abs(Ta - Tb)))
    ctx.observe("continuity", name, jump <= 2 * eps / vmin * (1 + 1e-5) + 1e-13 * tscale, branch="r=r_2",
                measure=jump, tol=2 * eps / vmin)
    # points whose computed radius is exactly r_1 / r_2 in floating point (axis points, 3-4-5 directions, mesh nodes on
    # the interface): the value there is the common limit of the two sides
    ex = np.array([[1.0, 0.0], [0.0, 1.0], [-1.0, 0.0], [0.0, -1.0], [0.6, 0.8], [-0.8, 0.6], [0.28, -0.96]])
    on = [q for q in ex * r2 if math.hypot(q[0], q[1]) == r2]
    if on:
        on = np.array(on)
        T0 = T_of(ctx, s, on)
        Tin, Tout = T_of(ctx, s, on * (1 - 1e-7)), T_of(ctx, s, on * (1 + 1e-7))
        dev = float(np.max(np.maximum(np.abs(T0 - Tin), np.abs(T0 - Tout))))
        ctx.observe("continuity", name, dev <= 2 * eps / vmin * (1 + 1e-5) + 1e-13 * tscale, branch="points exactly on r=r_2", measure=dev, tol=2 * eps / vmin,
                    detail=dict(n=len(on), r_2=r2, on=T0[:3].tolist(), inside=Tin[:3].tolist(), outside=Tout[:3].tolist()))
    on1 = [q for q in ex * r1 if math.hypot(q[0], q[1]) == r1]
    if on1:
        T1 = T_of(ctx, s, np.array(on1))
        ctx.observe("det.value", name, bool(np.all(np.abs(T1 - td) <= 1e-12 * tscale)), branch="points exactly on r=r_1", measure=float(np.max(np.abs(T1 - td))),
                    detail=dict(r_1=r1, t_d=td, T=T1[:3].tolist()))
    # radial derivative in each material
    for k in range(8):
        r = rr[k] if k < 4 else rr[20 + k - 4]
        mat = 1 if r < r2 else 2
        lo, hi = (r1, r2) if mat == 1 else (r2, 1e300)
        h = min(1e-3 * r, 0.2 * (r - lo), 0.2 * (hi - r))
        if h <= 1e-9 * r:
            continue
        u = U[k]
        line = np.array([u * (r + j * h / 2) for j in OFF9])
        Tl = T_of(ctx, s, line)
        _, d, e, _, _ = derivs9(Tl, h)
        v = p["D_CJ_%d" % mat] - p["alpha_%d" % mat] / r
        res = abs(d * v - 1.0)
        ctx.observe("eikonal", name, res <= 1e-7 + 10 * e * v, branch="material %d" % mat, measure=res, tol=1e-7,
                    detail=dict(r=float(r), dTdr=float(d), Dn=v))
    # monotone in r, independent of angle
    order = np.argsort(rr)
    ctx.observe("causal.min", name, np.all(np.diff(T[order]) >= -1e-13 * tscale), branch="monotone in r",
                measure=float(-np.min(np.diff(T[order]))))


UNITS = [
    Unit("k1", gen_k1, run_k1, quick=200, thorough=4000, min_nontrivial=100),
    Unit("k2", gen_k2, run_k2, quick=300, thorough=6000, min_nontrivial=300),
    Unit("k3", gen_k3, run_k3, quick=400, thorough=8000, min_nontrivial=300),
    Unit("dsd", gen_dsd, run_dsd, quick=300, thorough=6000, min_nontrivial=300),
]

"""C12 - radiative shocks are steady travelling waves conserving total fluxes.

  rad.translate  public call: solver(x, t) == solver(x - M0 a0 (t - t0), t0) with
                 a0 = sqrt(gamma (gamma-1) Cv Tref) computed by the monitor from the *user's* parameters
  rad.ends       ... and the downstream state is the compressed root of the radiation-modified jump conditions (reference by
                 continuation from the hydrodynamic jump), not the upstream state or a rarefaction state
  rad.mass       rho u constant along the profile and equal to rho0 M0 a0 (profile attributes)
  rad.momentum   rho u^2 + p + f a_r T_r^4 constant (f = 1/3; Sn: the returned Eddington factor; ED: T_m)
  rad.energy     u (rho u^2/2 + rho e + p) + a0 Fr constant (Fr is stored per upstream sound speed)
  rad.ends       far upstream/downstream: T_m = T_r (equilibrium) and a0 Fr = (4/3) u a_r T^4
                 (equilibrium flux), upstream state = the user's (rho0, Tref, M0 a0)
"""
import math

import numpy as np

from ..core import Unit, Skip, SolverRaised, logu, uni, choice, sgn

RULE = ("Mach numbers 1.05-3, gamma 1.2-5/3, Cv/Tref/rho0/sigA over a decade, absorption and scattering coefficients and exponents, closures "
        "{nED, LM_nED, FLD_LP, FLD_1, FLD_2}; a constructor that raises is counted and skipped (the property speaks of "
        "Mach numbers for which a solution is produced).  distinct = (monitor, solver, closure/branch, case).")
ASSUME = ["profile attributes Density, Speed, Pressure, SIE, Tm, Tr, Fr, VEF, x as used by the package's own flux tests",
          "flux-limited closures: the wrapper does not expose the limiter-dependent Eddington factor, so only mass flux, "
          "translation and end states are decided for FLD_*"]

AR = 137.20172


def jump_reference(M0, g, P0, K=60):
    """(rho1/rho0, T1/T0) of the compressed equilibrium state: momentum and total-energy flux balance with radiation
    pressure P0 T^4/3 and radiation enthalpy flux, followed from the hydrodynamic jump (P0 = 0) by continuation in P0"""
    import scipy.optimize as so
    M02 = M0 * M0

    def f(x, P):
        r, T = x
        T4 = T ** 4
        return [M02 + r * r * T / g + P * r * T4 / 3.0 - r * (M02 + 1.0 / g + P / 3.0),
                M02 / 2.0 + r * r * T / (g - 1.0) + 4.0 * P * r * T4 / 3.0 - r * r * (M02 / 2.0 + 1.0 / (g - 1.0) + 4.0 * P / 3.0)]
    x = np.array([(g + 1.0) * M02 / ((g - 1.0) * M02 + 2.0), (2.0 * g * M02 - (g - 1.0)) * ((g - 1.0) * M02 + 2.0) / ((g + 1.0) ** 2 * M02)])
    import warnings
    with warnings.catch_warnings():
        warnings.simplefilter("ignore")
        for k in range(1, K + 1):
            Pk = P0 * (k / K) ** 3
            x = so.fsolve(f, x, args=(Pk,), xtol=1e-13)
            if max(abs(v) for v in f(x, Pk)) > 1e-9 * M02 or not (x[0] > 1.0 + 1e-7):
                return None
    return x


def gen_params(rng, small=False):
    g = choice(rng, [5.0 / 3.0, 1.4, uni(rng, 1.2, 5.0 / 3.0)])
    return dict(M0=choice(rng, [1.05, 1.2, uni(rng, 1.05, 1.6), uni(rng, 1.6, 3.0)]) if not small else uni(rng, 1.05, 1.5),
                rho0=logu(rng, 0.3, 3.0), Tref=logu(rng, 50, 300), Cv=1.4472799784454e12 * logu(rng, 0.5, 2.0),
                gamma=g, sigA=577.35 * logu(rng, 0.3, 3.0),
                expDensity_abs=choice(rng, [0.0, 0.0, uni(rng, 0.0, 1.5)]), expTemp_abs=choice(rng, [0.0, 0.0, -uni(rng, 0.0, 2.0)]),
                # scattering: off (the default), constant, or a power law in density and/or temperature - each exponent
                # independently zero or not, so that every combination of the four exponents' zero patterns occurs
                sigS=choice(rng, [0.0, 577.35 * logu(rng, 0.1, 1.0), 577.35 * logu(rng, 0.1, 1.0)]),
                expDensity_scat=choice(rng, [0.0, uni(rng, 0.0, 1.5)]), expTemp_scat=choice(rng, [0.0, uni(rng, -1.5, 1.5)]))


def gen(kind):
    def g(rng, i, tier):
        kw = gen_params(rng, small=(kind != "ED"))
        if i % 4 == 0:
            kw = dict(M0=kw["M0"])             # defaults except the Mach number
        if i % 4 != 0:
            # which of the four opacity exponents are zero is enumerated (16 patterns), not drawn: code paths that
            # special-case a zero exponent are selected by exactly these patterns
            bits = (i - i // 4 - 1) % 16
            for b, (k, lo, hi) in enumerate((("expDensity_abs", 0.2, 1.5), ("expTemp_abs", -2.0, -0.2), ("expDensity_scat", 0.2, 1.5), ("expTemp_scat", -1.5, 1.5))):
                kw[k] = 0.0 if not (bits >> b) & 1 else (uni(rng, lo, hi) if k != "expTemp_scat" else sgn(rng) * uni(rng, 0.2, 1.5))
            if bits >> 2:
                kw["sigS"] = 577.35 * logu(rng, 0.1, 1.0)
        if kind == "ED" and i in (1, 2):
            # parameter sets for which the downstream root finder used to fall onto the upstream state (fixed in the repository)
            kw = [dict(M0=1.2, gamma=1.2), dict(M0=2.0, gamma=1.4)][i - 1]
        if kind == "ED" and i in (5, 6, 9, 10):
            # strong radiating shocks: the compression exceeds the hydrodynamic limit (gamma+1)/(gamma-1)
            kw = [dict(M0=6.0, Tref=300.0), dict(M0=5.0, Tref=1000.0), dict(M0=uni(rng, 4.0, 8.0), Tref=logu(rng, 200, 1000)),
                  dict(M0=uni(rng, 4.0, 7.0), Tref=logu(rng, 300, 1000), gamma=uni(rng, 1.3, 5.0 / 3.0))][(5, 6, 9, 10).index(i)]
        if kind == "nED" and i == 3:
            kw = dict(M0=8.0)
        if kind == "nED":
            kw["problem"] = ["nED", "LM_nED", "FLD_LP", "FLD_1", "FLD_2"][i % 5]
        if kind == "Sn":
            kw = dict(M0=choice(rng, [1.2, 1.05, 1.4]), Sn=8) if i % 2 == 0 else dict(M0=1.2, gamma=1.4, Sn=8)
        return dict(kind=kind, kw=kw, tshift=logu(rng, 1e-11, 1e-8), fr=[uni(rng, 0.05, 0.95) for _ in range(24)])
    return g


def run(ctx, p):
    from exactpack.solvers.radshocks import nED_radshocks as R
    kind, kw = p["kind"], p["kw"]
    cls = dict(ED=R.ED_Solver, nED=R.nED_Solver, Sn=R.Sn_Solver)[kind]
    s = ctx.make(cls, **kw)
    name = cls.__name__
    prob = kw.get("problem", kind)
    nd = "default state" if set(kw) <= {"M0", "problem", "Sn"} else "non-default state"
    br = "%s %s" % (prob, nd)
    g, Cv, Tref, rho0, M0 = s.gamma, s.Cv, s.Tref, s.rho0, s.M0
    a0 = math.sqrt(g * (g - 1.0) * Cv * Tref)
    x = np.asarray(s.x, float)
    rho, u, pr, e = (np.asarray(getattr(s, a), float) for a in ("Density", "Speed", "Pressure", "SIE"))
    Fr = np.asarray(s.Fr, float)
    Tm = np.asarray(s.Tm, float)
    Tr = np.asarray(getattr(s, "Tr", s.Tm), float)
    # thin out huge ED profiles (1e6 points) for the constancy sums: every point is still used for max/min
    det = dict(params=kw, n_profile=len(x))
    # ---- fluxes along the profile ---------------------------------------------------------------------------
    mass = rho * u
    r = float(np.max(np.abs(mass / (rho0 * M0 * a0) - 1.0)))
    ctx.observe("rad.mass", name, r <= 1e-7, branch=br, measure=r, tol=1e-7, detail=det)
    if not prob.startswith("FLD"):
        f = np.asarray(s.VEF, float) if kind == "Sn" else 1.0 / 3.0
        mom = rho * u * u + pr + f * AR * (Tm if kind == "ED" else Tr) ** 4
        r = float(np.max(np.abs(mom / mom[0] - 1.0)))
        ctx.observe("rad.momentum", name, r <= 1e-7, branch=br, measure=r, tol=1e-7, detail=det)
        en = u * (0.5 * rho * u * u + rho * e + pr) + a0 * Fr
        dev = np.abs(en / en[0] - 1.0)
        r_all = float(np.max(dev))
        r_inner = float(np.max(dev[:-1]))
        if kind == "ED":
            ctx.observe("rad.energy", name, r_inner <= 1e-7, branch=br + " (all but last point)", measure=r_inner, tol=1e-7, detail=det)
            ctx.observe("rad.energy", name, float(dev[-1]) <= 1e-7, branch=br + " last profile point", measure=float(dev[-1]), tol=1e-7,
                        detail=dict(det, M0=M0))
        else:
            ctx.observe("rad.energy", name, r_all <= 1e-7, branch=br, measure=r_all, tol=1e-7, detail=det)
    # ---- end states ---------------------------------------------------------------------------------------------
    for side, j in (("upstream", 0), ("downstream", -1)):
        Teq = abs(Tm[j] - Tr[j]) / Tm[j]
        ctx.observe("rad.ends", name, Teq <= 1e-4, branch="Tm=Tr %s %s" % (side, br), measure=Teq, tol=1e-4, detail=det)
        if not (kind == "ED" and j == -1):
            feq = abs(a0 * Fr[j] - (4.0 / 3.0) * u[j] * AR * Tr[j] ** 4) / abs((4.0 / 3.0) * u[j] * AR * Tr[j] ** 4)
            ctx.observe("rad.ends", name, feq <= 2e-3, branch="equilibrium flux %s %s" % (side, br), measure=feq, tol=2e-3, detail=det)
    # the downstream state is the *compressed* root of the radiation-modified jump conditions: the system also has the
    # upstream state itself (rho = T = 1: no shock at all) and a rarefaction state as roots, and constant fluxes cannot tell
    # them apart.  Reference: the root that continues the hydrodynamic Rankine-Hugoniot state as the radiation constant
    # P0 = a_R Tref^4 / (rho0 a0^2) is switched on in 60 steps (no reference where the continuation leaves rho > 1).
    ref = jump_reference(M0, g, AR * Tref ** 4 / (rho0 * a0 * a0))
    if ref is None:
        ctx.count("no_compressed_reference_root:" + name)
    else:
        dr, dT = abs(rho[-1] / rho0 / ref[0] - 1.0), abs(Tm[-1] / Tref / ref[1] - 1.0)
        ctx.observe("rad.ends", name, max(dr, dT) <= 1e-5, branch="downstream = compressed root of the jump conditions " + br, measure=max(dr, dT), tol=1e-5,
                    detail=dict(det, M0=M0, gamma=g, P0=AR * Tref ** 4 / (rho0 * a0 * a0), returned=[float(rho[-1] / rho0), float(Tm[-1] / Tref)], reference=[float(ref[0]), float(ref[1])]))
    up = max(abs(rho[0] / rho0 - 1), abs(Tm[0] / Tref - 1), abs(u[0] / (M0 * a0) - 1))
    ctx.observe("rad.ends", name, up <= 1e-4, branch="upstream = user's state " + br, measure=up, tol=1e-4, detail=det)
    # ---- translation through the public call -----------------------------------------------------------------
    lo, hi = -x.max(), -x.min()
    xs = np.sort(lo + (hi - lo) * np.array(p["fr"]))
    t0, t1 = 0.0, p["tshift"] * (hi - lo) / (M0 * a0) * 1e9 * 1e-1
    A = ctx.call(s, xs, t0)
    B = ctx.call(s, xs + M0 * a0 * (t1 - t0), t1)
    worst, wf = 0.0, None
    for fn in A.dtype.names:
        if fn == "position":
            continue
        a, b = np.asarray(A[fn], float), np.asarray(B[fn], float)
        sc = max(float(np.max(np.abs(a))), 1e-300)
        d = float(np.max(np.abs(a - b))) / sc
        if d > worst:
            worst, wf = d, fn
    # round-off of the shifted abscissae on a profile with steep parts: 1e-9 of the field scale
    ctx.observe("rad.translate", name, worst <= 1e-6, branch=br, measure=worst, tol=1e-6,
                detail=dict(det, shift=M0 * a0 * (t1 - t0), width=hi - lo, worst_field=wf), nontrivial=True)


def reach(tot, tier):
    out = []
    seen = {}
    for k, st in tot["stats"].items():
        m, s, b = k.split("|", 2)
        if m == "rad.translate" and "non-default" in b:
            seen[s] = seen.get(s, 0) + st["evals"]
    for c, n in (("ED_Solver", 3), ("nED_Solver", 3)):
        if seen.get(c, 0) < n:
            out.append("fewer than %d non-default profiles produced for %s" % (n, c))
    return out


UNITS = [
    Unit("ED", gen("ED"), run, quick=32, thorough=240, min_nontrivial=30),
    Unit("nED", gen("nED"), run, quick=40, thorough=400, min_nontrivial=60),
    Unit("Sn", gen("Sn"), run, quick=2, thorough=12, min_nontrivial=4),
]

"""C08 - dimensional consistency: a change of units in gives the same change out.

For scale factors (M, L, T, Theta) every dimensional input (parameters, points, time) is multiplied
by the product of powers its dimension dictates, the public call is repeated, and every output field
is compared with (its own scale factor) x (original output).  Dimension vectors are in the table
DIMS below (written from the parameter help / docstrings; coefficient parameters of power-law
solutions carry the powers of L and T implied by the documented exponents).
"""
import math

import numpy as np

from ..core import Unit, Skip, SolverRaised, logu, uni, choice
from .. import catalogue as C
from .. import riemann_common as RC

RULE = ("per solver whose documentation does not require particular units: random admissible catalogue parameters, "
        "scale factors log-uniform in [1e-2,1e2] (quick) / [1e-4,1e4] (thorough) per base unit plus the cgs<->SI triple; "
        "distinct = (class, field, case); non-trivial = field not identically zero.")
ASSUME = ["dimension table DIMS in rtm/props/c08.py", "Noh2 / Guderley have a hard-wired time unit (collapse at t=1 / at "
          "t=0.750024322): only the free base units are scaled, as documented in DESIGN.md",
          "Coggeshall solutions with built-in radiation constants (c, a) are excluded, as the property says"]

# base dimension vectors (M, L, T, Theta)
RHO, VEL, PRS, SIE, LEN, TIM, TMP, ONE = (1, -3, 0, 0), (0, 1, -1, 0), (1, -1, -2, 0), (0, 2, -2, 0), (0, 1, 0, 0), (0, 0, 1, 0), (0, 0, 0, 1), (0, 0, 0, 0)
GRU = (0, 2, -2, -1)        # Gruneisen constant of the Coggeshall EOS: P = Gamma rho T


def add(a, b, f=1.0):
    return tuple(x + f * y for x, y in zip(a, b))


def fac(dim, s):
    return s[0] ** dim[0] * s[1] ** dim[1] * s[2] ** dim[2] * s[3] ** dim[3]


FIELDS = {"density": RHO, "velocity": VEL, "pressure": PRS, "specific_internal_energy": SIE, "sound_speed": VEL,
          "temperature": TMP, "position": LEN, "burntime": TIM, "xdet": LEN, "deviatoric stress": PRS,
          "position_x": LEN, "position_y": LEN, "position_z": LEN, "radius": LEN,
          "curr_posn": LEN, "displacement": LEN, "strain_rr": ONE, "strain_qq": ONE, "strain_vol": ONE,
          "stress_rr": PRS, "stress_qq": PRS, "stress_dev_rr": PRS, "stress_dev_qq": PRS, "stress_diff": PRS}


def cog_dims(ent, kw, geom):
    """dimension vectors of the coefficient parameters of the power-law Coggeshall solutions, from the documented
    exponents: field = coeff * r^a * t^b  =>  [coeff] = [field] L^-a T^-b"""
    k = geom - 1.0
    g = kw.get("gamma")
    d = {"gamma": ONE, "Gamma": GRU, "b": ONE, "alpha": ONE, "beta": ONE}
    if ent == "Cog1":
        b = kw["b"]
        d["rho0"] = add(add(RHO, LEN, -b), TIM, b + k + 1)
        d["temp0"] = add(add(TMP, LEN, b), TIM, -(b - (g - 1) * (k + 1)))
    elif ent == "Cog2":
        b = kw["b"]
        d["rho0"] = add(add(RHO, LEN, -b), TIM, 2 * (b + k + 1) / (2 + (g - 1) * (k + 1)))
    elif ent == "Cog4":
        d["rho0"] = add(RHO, LEN, 2 * k / (g + 1))
        d["u0"] = add(VEL, LEN, k * (g - 1) / (g + 1))
    elif ent == "Cog5":
        d["rho0"] = add(RHO, LEN, 2)
        d["u0"] = add(VEL, TIM, -1)
    elif ent == "Cog8":
        e1 = (k - 1) / (kw["beta"] - kw["alpha"] + 4)
        d["rho0"] = add(add(RHO, LEN, -e1), TIM, (k + 1) + e1)
        d["temp0"] = add(add(TMP, LEN, e1), TIM, -((1 - g) * (k + 1) + e1))
    elif ent == "Cog9":
        a, be = kw["alpha"], kw["beta"]
        e1 = -(2 * be + k + 7) / a
        e2 = -2 * (a * (k + 1) - 2 * be - k - 7) / (a * (2 + (g - 1) * (k + 1)))
        d["rho0"] = add(add(RHO, LEN, -e1), TIM, -e2)
    elif ent == "Cog11":
        e1 = (g - 1) * (k + 1) - 2
        d["rho0"] = add(add(RHO, LEN, -e1), TIM, -(1 - k - (g - 1) * (k + 1)))
        d["temp0"] = add(add(TMP, LEN, e1), TIM, 2)
    elif ent == "Cog12":
        d["rho0"] = add(RHO, LEN, 2 * k / (g + 1))
        d["u0"] = add(VEL, LEN, -k * (1 - g) / (1 + g))
    elif ent == "Cog19":
        d["rho0"], d["u0"] = RHO, VEL
    elif ent == "Cog20":
        d["rho0"], d["u0"], d["a"] = RHO, VEL, (0, 0, -1, 0)
    elif ent == "Cog21":
        d["rho0"] = add(RHO, LEN, 3)
        d["temp0"] = add(TMP, LEN, -3)
    else:
        return None
    return d


def sedov_dims(kw, geom):
    return {"gamma": ONE, "omega": ONE, "rho0": add(RHO, LEN, kw["omega"]), "eblast": (1, geom - 1, -2, 0)}


def rod_dims(kw):
    d = {"Nsum": ONE, "kappa": (0, 2, -1, 0), "TL": TMP, "TR": TMP, "L": LEN, "alpha1": ONE, "beta1": LEN, "alpha2": ONE, "beta2": LEN,
         "gamma1": TMP, "gamma2": TMP}
    # alpha T + beta T' = gamma: with beta carrying a length the right-hand side is a temperature
    return d


STATIC = {
    "Noh": dict(gamma=ONE, u0=VEL, rho0=RHO),
    "Noh2": dict(gamma=ONE, rho0=RHO, e0=SIE),
    "Noh2Cog": dict(gamma=ONE, rho0=RHO, e0=SIE),
    "Guderley": dict(gamma=ONE, rho0=RHO),
    "EscapeOfHEProducts": dict(D=VEL, rho_0=RHO, up=VEL, xtilde=LEN, xmax=LEN, tmax=TIM),
    "Mader": dict(p_cj=PRS, d_cj=VEL, gamma=ONE, u_piston=VEL),
    "Kenamond1": dict(D=VEL, x_d=LEN, t_d=TIM),
    "Kenamond2": dict(R=LEN, D1=VEL, D2=VEL, dets=LEN, t_d=TIM),
    "Kenamond3": dict(R=LEN, D=VEL, x_d=LEN, t_d=TIM),
    "CylindricalExpansion": dict(r_1=LEN, r_2=LEN, D_CJ_1=VEL, D_CJ_2=VEL, alpha_1=(0, 2, -1, 0), alpha_2=(0, 2, -1, 0), t_d=TIM),
    "Blake": dict(shear_mod=PRS, poisson_ratio=ONE, ref_density=RHO, cavity_radius=LEN, pressure_scale=PRS),
    "EPpiston": dict(gamma=ONE, c0=VEL, s0=ONE, model=None, G=PRS, Y=PRS, rho0=RHO, up=VEL),
    "PlanarSandwich": dict(kappa=(0, 2, -1, 0), Nsum=ONE, L=LEN, TT=TMP, TB=TMP, TL=TMP, TR=TMP),
    "PlanarSandwichHot": dict(kappa=(0, 2, -1, 0), Nsum=ONE, L=LEN, F=(0, -1, 0, 1), TL=TMP, TR=TMP),
    "PlanarSandwichHalf": dict(kappa=(0, 2, -1, 0), Nsum=ONE, L=LEN, TB=TMP, FT=(0, -1, 0, 1), TL=TMP, TR=TMP),
    "Hutchens1": dict(k=(1, 1, -3, -1), cp=(0, 2, -2, -1), rho=RHO, Tb=TMP, T0=TMP, Nsum=ONE, b=LEN),
    "IGEOS_Solver": dict(pl=PRS, rl=RHO, ul=VEL, gl=ONE, pr=PRS, rr=RHO, ur=VEL, gr=ONE, xmin=LEN, xd0=LEN, xmax=LEN),
    "GenEOS_Solver": dict(pl=PRS, rl=RHO, ul=VEL, gl=ONE, pr=PRS, rr=RHO, ur=VEL, gr=ONE, xmin=LEN, xd0=LEN, xmax=LEN),
}
# hard-wired units: which base units may be scaled at all
FREE = {"Noh2": (1, 1, 0, 1), "Noh2Cog": (1, 1, 0, 1), "Guderley": (1, 0, 0, 1)}
ENTRIES = ["Noh", "Noh2", "Noh2Cog", "Sedov", "Guderley", "IGEOS_Solver", "GenEOS_Solver", "Cog1", "Cog2", "Cog4", "Cog5", "Cog8", "Cog9",
           "Cog11", "Cog12", "Cog19", "Cog20", "Cog21", "EscapeOfHEProducts", "Mader", "Kenamond1", "Kenamond2", "Kenamond3",
           "CylindricalExpansion", "Blake", "EPpiston", "Rod1D", "PlanarSandwich", "PlanarSandwichHot", "PlanarSandwichHalf", "Hutchens1"]
ITER_TOL = {"Sedov": 5e-5, "IGEOS_Solver": 1e-6, "GenEOS_Solver": 5e-5, "EPpiston": 1e-6, "Guderley": 1e-7, "Blake": 1e-9}


def dims_for(ent, kw, geom):
    if ent.startswith("Cog"):
        return cog_dims(ent, kw, geom)
    if ent == "Sedov":
        return sedov_dims(kw, geom)
    if ent == "Rod1D":
        return rod_dims(kw)
    return STATIC.get(ent)


def scale_kw(kw, dims, s):
    out = {}
    for k, v in kw.items():
        d = dims.get(k, "missing")
        if d == "missing":
            raise KeyError(k)
        if d is None or isinstance(v, str):
            out[k] = v
        elif isinstance(v, (list, tuple)):
            out[k] = type(v)(float(x) * fac(d, s) for x in v)
        elif isinstance(v, (int,)) and d == ONE:
            out[k] = v
        else:
            out[k] = float(v) * fac(d, s)
    return out


def gen(rng, i, tier):
    ent = ENTRIES[i % len(ENTRIES)]
    lo = 1e-2 if tier == "quick" else 1e-4
    if i % 7 == 6:
        s = [1e-3, 1e-2, 1.0, 1.0]                       # cgs -> SI (g->kg, cm->m)
    else:
        s = [logu(rng, lo, 1 / lo) for _ in range(4)]
    return dict(entry=ent, seed=int(rng.integers(2 ** 31)), s=s, rep=i // len(ENTRIES))


def run(ctx, p):
    ent = p["entry"]
    e = C.CAT[ent]
    # costly classes: repetitions 0, 3, 6 ... of the quick tier (scheduled, not drawn: a random thinning left one run in
    # five without any Guderley pair and the run inconclusive)
    if e["cost"] >= 1 and p.get("rep", p["seed"]) % 3 != 0 and not ctx.thorough():
        raise Skip("costly_class_thinned")
    cls = C.load(e["path"])
    rng = np.random.default_rng(p["seed"])
    d = C.draw(ctx, cls, ent, rng, n=10 if e["cost"] >= 0.05 else 40)      # cheap closed forms: more points, more regions per case
    if d is None:
        raise Skip("no_admissible_draw")
    geom = d["geom"]
    kw = {k: v for k, v in d["passed"].items() if k != "geometry"}
    dims = dims_for(ent, kw, geom if geom else 3)
    if dims is None:
        raise Skip("no_dimension_table")
    free = FREE.get(ent, (1, 1, 1, 1))
    s = [p["s"][j] if free[j] else 1.0 for j in range(4)]
    if ent in ("IGEOS_Solver", "GenEOS_Solver"):
        # keep the pressure AND density numbers >= 1e-4: below that the solvers' absolute bisect tolerances (on p* in
        # both solvers, on the Hugoniot density in the general one) take over - recorded as known findings through the
        # dedicated probes below
        sp = fac(PRS, s)
        pmin = min(kw["pl"], kw["pr"]) * sp
        if pmin < 1e-4:
            s[0] *= 1e-4 / pmin
        rmin = min(kw["rl"], kw["rr"]) * fac(RHO, s)
        if rmin < 1e-4:
            # raise the density numbers at fixed pressure numbers: M -> k M, T -> sqrt(k) T
            k_ = 1e-4 / rmin
            s[0] *= k_
            s[2] *= math.sqrt(k_)
    suffix = ""
    if ent == "EscapeOfHEProducts" and max(s[2] / s[1], s[1] / s[2]) > 10.0:
        suffix = " [time/length unit ratio > 10]"
    try:
        kw2 = scale_kw(kw, dims, s)
    except KeyError as ex:
        raise Skip("parameter_without_dimension_%s" % ex)
    if geom is not None and "geometry" in cls.parameters:
        kw2["geometry"] = geom
    s2 = ctx.make(cls, **kw2)
    pts = np.asarray(d["points"], dtype=float) * s[1]
    t2 = d["t"] * s[2]
    B = ctx.call(s2, pts, t2)
    A = d["sol"]
    if p["seed"] % 2 == 1 and e["cost"] < 1:
        # both unit systems alive at the same time (the way a user compares them): the original problem is evaluated
        # again now that the solver of the scaled one has been constructed and used
        A = ctx.call(d["solver"], np.asarray(d["points"], dtype=float), d["t"])
        suffix = " [original evaluated after the scaled solver was built]" + suffix      # (recorded findings match on the end of the branch)
    tol = ITER_TOL.get(ent, 1e-9)
    name = cls.__name__
    floors = {}
    if ent == "IGEOS_Solver":
        fa, fb = RC.bisect_floors(A, kw), RC.bisect_floors(B, kw2)
        for f in ("pressure", "density", "velocity", "specific_internal_energy"):
            floors[f] = fa["floor_" + f] + fb["floor_" + f] / fac(FIELDS[f], s)
    fdims = dict(FIELDS)
    if ent == "Noh2Cog":
        fdims["temperature"] = SIE        # Gamma = 1 is hard-wired in Noh2Cog: its temperature is (gamma-1) e
    for f in A.dtype.names:
        if f not in FIELDS or A[f].dtype.kind != "f":
            ctx.count("field_without_dimension:%s:%s" % (name, f))
            continue
        a = np.asarray(A[f], dtype=float) * fac(fdims[f], s)
        b = np.asarray(B[f], dtype=float)
        both_nan = np.isnan(a) & np.isnan(b)
        sc = max(float(np.nanmax(np.abs(a))) if np.isfinite(a).any() else 0.0, 1e-300)
        if f == "velocity" and "sound_speed" not in A.dtype.names and "pressure" in A.dtype.names and "density" in A.dtype.names:
            with np.errstate(all="ignore"):
                cs = np.sqrt(np.abs(np.asarray(A["pressure"], float) / np.asarray(A["density"], float))) * fac(VEL, s)
            sc = max(sc, float(np.nanmax(cs)) if np.isfinite(cs).any() else 0.0)
        dd = np.where(both_nan, 0.0, np.abs(a - b))
        dd = np.where(np.isnan(dd), np.inf, dd)
        dmax = max(float(np.max(dd)) - floors.get(f, 0.0) * fac(fdims[f], s), 0.0) / sc
        ctx.observe("units", name, dmax <= tol, branch=f + suffix, measure=dmax, tol=tol, nontrivial=bool(np.any(a != 0)),
                    detail=dict(scale=s, params=kw, geometry=geom, t=d["t"]))


# ---- known finding probe: tiny pressure numbers -----------------------------------------------------------------------
def gen_tiny(rng, i, tier):
    return dict(which=["IGEOS", "GenEOS"][i % 2] if tier == "thorough" else "IGEOS", sp=10.0 ** (-(8 + (i % 5))))


def gen_ehep_ratio(rng, i, tier):
    return dict(entry="EscapeOfHEProducts", seed=int(rng.integers(2 ** 31)), s=[1.0, 1e-3, 1e3, 1.0] if i % 2 == 0 else [1.0, 1e3, 1e-3, 1.0], dense=True)


def run_tiny(ctx, p):
    st = dict(rl=1.0, ul=0.0, pl=1.0, gl=1.4, rr=0.125, ur=0.0, pr=0.1, gr=1.4)
    sp = p["sp"]
    x = np.array([0.2, 0.45, 0.6, 0.7, 0.8, 0.95])
    a = RC.make_solver(ctx, p["which"], st, 0.5, 0.0, 1.0)
    A = ctx.call(a, x, 0.25)
    # pressure unit changed by sp with mass only (L = T = 1): rho and p scale by sp, velocities and energies do not
    st2 = dict(st, pl=st["pl"] * sp, pr=st["pr"] * sp, rl=st["rl"] * sp, rr=st["rr"] * sp)
    b = RC.make_solver(ctx, p["which"], st2, 0.5, 0.0, 1.0)
    B = ctx.call(b, x, 0.25)
    worst = 0.0
    for f, k in (("pressure", sp), ("density", sp), ("velocity", 1.0), ("specific_internal_energy", 1.0)):
        aa, bb = np.asarray(A[f], float) * k, np.asarray(B[f], float)
        sc = max(float(np.max(np.abs(aa))), 1e-300)
        dd = np.abs(aa - bb)
        dd = np.where(np.isnan(dd), np.inf, dd)
        worst = max(worst, float(np.max(dd)) / sc)
    ctx.observe("units", p["which"] + "_Solver", worst <= 1e-6, branch="tiny pressure numbers", measure=worst, tol=1e-6,
                detail=dict(pressure_scale=sp))


def run_ehep_ratio(ctx, p):
    """EHEP decides region membership with Euclidean distances in the (x,t) plane and an absolute tolerance: probe points
    a little beyond the region II / vacuum boundary x = D t in unit systems with very different length and time numbers"""
    from exactpack.solvers.ehep.ehep import EscapeOfHEProducts
    rng = np.random.default_rng(p["seed"])
    kw = C.gen_ehep(rng, 1)
    s = p["s"]
    a = ctx.make(EscapeOfHEProducts, **kw)
    t = 0.8 * min(kw["tmax"], kw["xmax"] / kw["D"])
    x = kw["D"] * t * (1.0 + np.array([-3e-3, -1e-3, 1e-4, 1e-3, 3e-3]))
    A = ctx.call(a, x, t)
    kw2 = scale_kw(kw, STATIC["EscapeOfHEProducts"], s)
    b = ctx.make(EscapeOfHEProducts, **kw2)
    B = ctx.call(b, x * s[1], t * s[2])
    for f in ("density", "pressure", "velocity"):
        aa = np.asarray(A[f], float) * fac(FIELDS[f], s)
        bb = np.asarray(B[f], float)
        sc = max(float(np.max(np.abs(aa))), float(np.max(np.abs(bb))), 1e-300)
        d = float(np.max(np.abs(aa - bb))) / sc
        ctx.observe("units", "EscapeOfHEProducts", d <= 1e-9, branch=f + " [time/length unit ratio > 10]", measure=d, tol=1e-9,
                    detail=dict(scale=s, params=kw, regions=[str(r) for r in A["region"]], regions_scaled=[str(r) for r in B["region"]]))


def reach(tot, tier):
    seen = set(k.split("|")[1] for k in tot["stats"])
    out = []
    for c in ("Noh", "Noh2", "Sedov", "Guderley", "IGEOS_Solver", "Cog1", "Cog19", "EscapeOfHEProducts", "Mader", "Kenamond1", "Kenamond2",
              "Kenamond3", "CylindricalExpansion", "Blake", "EPpiston", "Rod1D", "Hutchens1"):
        if c not in seen:
            out.append("no unit-scaling pair for %s" % c)
    return out


UNITS = [
    Unit("scale", gen, run, quick=len(ENTRIES) * 8, thorough=len(ENTRIES) * 80, min_nontrivial=500),
    Unit("tiny", gen_tiny, run_tiny, quick=5, thorough=20, min_nontrivial=1),
    Unit("ehep.ratio", gen_ehep_ratio, run_ehep_ratio, quick=4, thorough=40, min_nontrivial=4),
]

"""C11 - Sedov: energy behind the shock equals the blast energy; mass is conserved.

One public call on the solver's own 3001 node radii inside the front (so that no interpolation error
enters), composite Simpson with a Richardson error estimate:
   E(t) = int_0^r2 (rho u^2/2 + p/(gamma-1)) dV  ==  eblast
   M(t) = int_0^r2 rho dV                       ==  rho0 w_k r2^(k-omega)/(k-omega)
dV = dr, 2 pi r dr, 4 pi r^2 dr (planar energy is the one-sided integral: convention of sedov/__init__).
A second call with max(r) beyond the front checks the undisturbed state ahead of it.
A case whose quadrature error estimate exceeds the tolerance (thin shells as omega -> k) is
inconclusive, never a violation.
"""
import math

import numpy as np

from ..core import Unit, Skip, SolverRaised, logu, uni, choice
from ..oracles import simpson
from .. import catalogue as C

RULE = ("geometry 1/2/3 x gamma in (1.05,3] x omega in [0,k) incl. neighbourhoods of the singular/omega2/omega3 "
        "values x rho0, eblast, t over 1.5-3 decades; distinct = (integral, geometry+solution type, case); every "
        "conclusive case is non-trivial.")
ASSUME = ["Simpson on 3001 node-aligned radii; Richardson estimate (n vs n/2) bounds the quadrature error",
          "the truncated inner core (see C01) carries negligible mass and energy (its density is < 1e-3 rho_2)"]

W = {1: 1.0, 2: 2 * math.pi, 3: 4 * math.pi}


def gen(rng, i, tier):
    geom = 1 + i % 3
    g = choice(rng, [uni(rng, 1.05, 3.0), 1.4, 5.0 / 3.0, uni(rng, 1.05, 1.3)])
    kind = i % 6
    if kind == 0:
        om = 0.0
    elif kind == 1:
        om = uni(rng, 0.0, 0.95 * geom)
    elif kind == 2:
        # neighbourhood of the singular value omega_1 = (3k - 2 + gamma(2-k))/(gamma+1)
        om1 = (3 * geom - 2 + g * (2 - geom)) / (g + 1)
        om = min(max(om1 + uni(rng, -0.1, 0.1), 0.0), 0.95 * geom)
    elif kind == 5:
        om1 = (3 * geom - 2 + g * (2 - geom)) / (g + 1)      # exactly singular
        om = om1 if 0.0 <= om1 < 0.97 * geom else 0.0
    elif kind == 3:
        om2 = (2 * (g - 1) + geom) / g          # denom2 = 0
        om = min(max(om2 + uni(rng, -0.05, 0.05), 0.0), 0.95 * geom)
    else:
        om3 = geom * (2 - g)                    # denom3 = 0
        om = min(max(om3 + uni(rng, -0.05, 0.05), 0.0), 0.95 * geom)
    # "at every time": two cases out of three evaluate the solver object at another (earlier or later) time first
    return dict(geom=geom, kw=dict(gamma=g, rho0=logu(rng, 0.05, 20), omega=om, eblast=logu(rng, 0.05, 20)), t=logu(rng, 0.05, 5),
                t_before=[None, 0.37, 2.3][(i // 6) % 3])


def run(ctx, p):
    from exactpack.solvers.sedov.sedov import Sedov
    geom, kw, t = p["geom"], p["kw"], p["t"]
    s = ctx.make(Sedov, geometry=geom, **kw)
    if p.get("t_before"):
        ctx.call(s, np.array([0.3, 1.0]), t * p["t_before"])
        ctx.count("solver_object_used_at_another_time_first")
    ctx.call(s, np.array([1.0]), t)
    r2 = float(s.r2)
    styp = s.solution_type
    br = "g=%d %s" % (geom, styp)
    g, om = kw["gamma"], kw["omega"]
    n = 3000
    rmax = r2 * (1.0 - 1e-12)
    r = np.arange(0, n + 1) * (rmax / n)
    r[-1] = rmax
    sol = ctx.call(s, r, t)
    rho, u, pr = (np.asarray(sol[f], float) for f in ("density", "velocity", "pressure"))
    if not (np.all(np.isfinite(rho)) and np.all(np.isfinite(u)) and np.all(np.isfinite(pr))):
        ctx.count("nonfinite_profile:" + br)
        raise Skip("nonfinite_profile")
    dV = W[geom] * r ** (geom - 1)
    fE = (0.5 * rho * u * u + pr / (g - 1.0)) * dV
    fM = rho * dV
    E, eE = simpson(fE, r)
    M, eM = simpson(fM, r)
    # resolvability of the quadrature: Simpson on n, n/2 and n/4 intervals.  In the asymptotic regime the
    # differences shrink by ~16 per halving; if they do not (a shell only a few cells thick behind the front),
    # the Richardson estimate cannot be trusted and the larger difference is taken as the error.
    def err_est(f):
        I1, _ = simpson(f, r)
        I2, _ = simpson(f[::2], r[::2])
        I4, _ = simpson(f[::4], r[::4])
        d1, d2 = abs(I1 - I2), abs(I2 - I4)
        if d2 > 0 and d1 / d2 > 0.3:
            return max(d1, d2)
        return 4.0 * d1 / 15.0
    eE, eM = err_est(fE), err_est(fM)
    # truncated inner core (C01): the returned density there is a straight line above the true (convex, tiny)
    # profile, so the core's returned mass / kinetic energy bound the error it introduces
    dd = np.abs(np.diff(rho, 2)) / (np.abs(rho[1:-1]) + 1e-300)
    j = 0
    while j < len(dd) and dd[j] < 1e-7:
        j += 1
    core = j + 2
    coreM = float(np.trapezoid(fM[:core + 1], r[:core + 1])) if core > 1 else 0.0
    coreK = float(np.trapezoid((0.5 * rho * u * u * dV)[:core + 1], r[:core + 1])) if core > 1 else 0.0
    Mexp = kw["rho0"] * W[geom] * r2 ** (geom - om) / (geom - om)
    tol = 1e-4
    for lab, got, err, want, slack in (("energy=eblast", E, eE, kw["eblast"], coreK), ("mass", M, eM, Mexp, coreM)):
        res = abs(got - want) / want
        if 10 * err / want > tol:
            ok = None
            ctx.count("quadrature_not_resolvable:" + br)
        else:
            ok = res <= tol + 10 * err / want + slack / want
        ctx.observe("sedov." + lab, "Sedov", ok, branch=br, measure=res, tol=tol,
                    detail=dict(params=kw, geometry=geom, t=t, r2=r2, integral=got, expected=want, quad_err=err, core_nodes=core, core_slack=slack))
    # undisturbed state ahead of the front (beyond the one internal cell that contains it)
    rout = 2.0 * r2
    cell = rout / 3000.0
    ra = np.array([0.5 * r2, r2 + 2.5 * cell, 1.3 * r2, rout])
    ah = ctx.call(s, ra, t)
    m = ra > r2
    want = kw["rho0"] * ra[m] ** (-om)
    got = np.asarray(ah["density"], float)[m]
    # the last point is an internal node (exact); the others are interpolated linearly between nodes of r^-omega
    tolr = np.array([1e-5, 1e-5, 1e-12])
    ok = (np.all(np.abs(got - want) <= tolr * want) and np.all(np.asarray(ah["velocity"], float)[m] == 0)
          and np.all(np.asarray(ah["pressure"], float)[m] == 0))
    ctx.observe("sedov.ahead", "Sedov", bool(ok), branch=br, measure=float(np.max(np.abs(got - want) / want)), tol=1e-5,
                detail=dict(params=kw, density=got.tolist(), expected=want.tolist()), nontrivial=True)


def reach(tot, tier):
    out = []
    types = set()
    concl = 0
    for k, st in tot["stats"].items():
        m, s, b = k.split("|", 2)
        if m.startswith("sedov.energy") and st["held"] + st["violated"] > 0:
            types.add(b.split()[-1])
            concl += st["held"] + st["violated"]
    need = 30 if tier == "quick" else 300
    if concl < need:
        out.append("only %d conclusive energy integrals (< %d)" % (concl, need))
    for ty in ("standard", "vacuum"):
        if ty not in types:
            out.append("solution type %s not reached with a conclusive integral" % ty)
    return out


UNITS = [Unit("integrals", gen, run, quick=72, thorough=900, min_nontrivial=60)]

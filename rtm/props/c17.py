"""C17 - solutions are admissible: positive, compressive shocks, monotone fans, bounded.

Online (icontract postcondition on ExactSolver.__call__, every call of the workload, listed solvers):
  adm.positive   density > 0 (or exactly 0 in a documented vacuum), pressure / sie / temperatures >= 0,
                 sound speed real and >= 0, nothing NaN where the density is positive
Driver-side sequence monitors on fine point sequences:
  adm.shock      compressive: pressure and density rise in the direction the material crosses the front
  adm.fan        pressure, density, velocity monotone inside every rarefaction fan / Taylor wave
  adm.bounded    values between two constant states lie between them (Mader's partial cell, smeared cells of
                 interpolating solvers, the piston's intermediate state)
  adm.suolson    0 <= T_mat <= T_rad <= T_bc, monotone in x and in t
"""
import math

import numpy as np

from ..core import Unit, Skip, SolverRaised, logu, uni, choice
from .. import boundary
from .. import catalogue as C
from .. import riemann_common as RC

RULE = ("random admissible parameters for Noh, Sedov, Guderley, both Riemann solvers (all patterns), EHEP, Mader (grids "
        "whose cells straddle the tail of the Taylor wave at random offsets), SDRZ, EP piston, Su-Olson, radiative shocks; "
        "fine point sequences across every wave.  distinct = (monitor, class, branch, case).")
ASSUME = ["monotonicity tolerances: 1e-12 relative for closed forms, resolution-based for interpolating solvers",
          "documented vacua: EHEP regions 00/0V/None, Sedov 'vacuum' solutions inside r_vacuum and the Sedov origin, Riemann none"]

LISTED = ("Noh", "Sedov", "Guderley", "IGEOS_Solver", "GenEOS_Solver", "EscapeOfHEProducts", "Mader",
          "SteadyDetonationReactionZone", "EPpiston", "SuOlson", "ED_Solver", "nED_Solver", "Sn_Solver")


def fam(s):
    for c in type(s).__mro__:
        if c.__name__ in LISTED and not c.__module__.endswith("riemann2D_2section_steadystate.ep_riemann2D_2section_steadystate"):
            return c.__name__
    return None


def positive_monitor(ctx, s, before, after, t, sol):
    f = fam(s)
    if f is None:
        return
    N = sol.dtype.names
    name = type(s).__name__
    if f == "Mader" and not (t > 0):
        return
    # an answer that is NaN in every dependent field is the documented "no solution here" (t <= 0, outside the domain:
    # C20's subject), not an inadmissible state
    dep = [n for n in N if sol[n].dtype.kind == "f" and not n.startswith("position") and n not in ("radius", "xdet")]
    if dep and all(np.all(np.isnan(np.asarray(sol[n], float))) for n in dep):
        ctx.count("all_nan_answer_not_judged:" + name)
        return
    bad = []
    rho = np.asarray(sol["density"], float) if "density" in N else None
    vac = np.zeros(len(sol), dtype=bool) if rho is None else (rho == 0.0)
    if rho is not None:
        if np.any(rho < 0) or np.any(np.isnan(rho)):
            bad.append(("density", float(np.nanmin(rho)) if np.isfinite(rho).any() else float("nan")))
        if f not in ("EscapeOfHEProducts", "Sedov", "SteadyDetonationReactionZone") and np.any(vac):
            bad.append(("density==0 outside a documented vacuum", 0.0))
    for n in ("pressure", "specific_internal_energy", "temperature", "temperature_mat", "temperature_rad", "sound_speed", "rade"):
        if n in N:
            v = np.asarray(sol[n], float)
            m = ~vac
            if np.any(v[m] < 0) or np.any(np.isnan(v[m])):
                vv = v[m]
                bad.append((n, float(np.nanmin(vv)) if np.isfinite(vv).any() else float("nan")))
    for n in N:
        if sol[n].dtype.kind == "c":
            bad.append((n + " complex", 0.0))
    br = f
    if f == "EPpiston":
        br += " piston slower than the precursor's particle velocity" if not (s.up > s.vel_y) else (" overdriven" if not (s.wv_pl < s.wv_el) else "")
    ctx.observe("adm.positive", name, not bad, branch=br, detail=dict(bad=bad, t=t, n=len(sol),
                params={k: getattr(s, k) for k in getattr(s, "parameters", {}) if isinstance(getattr(s, k, None), (int, float, str))}) if bad else None)


def setup(ctx):
    boundary.install(ctx, [positive_monitor])


def mono(v, sign, tol):
    """v monotone non-decreasing (sign=+1) or non-increasing (sign=-1) within tol"""
    d = np.diff(np.asarray(v, float)) * sign
    return bool(np.all(d >= -tol)), float(-d.min()) if d.size else 0.0


# ---- catalogue sweep for positivity -----------------------------------------------------------------------------------
_cls = {}


def listed_classes():
    if not _cls:
        for q, cls in sorted(C.discover().items()):
            ent, isw = C.general_entry_for(q, cls)
            if ent and any(b.__name__ in LISTED for b in cls.__mro__) and "riemann2D" not in q:
                _cls[q] = (cls, ent)
    return _cls


def gen_cat(rng, i, tier):
    return dict(slot=i, seed=int(rng.integers(2 ** 31)))


def run_cat(ctx, p):
    cl = listed_classes()
    keys = sorted(cl)
    q = keys[p["slot"] % len(keys)]
    cls, ent = cl[q]
    e = C.CAT[ent]
    if e["cost"] > 5 and not ctx.thorough():
        raise Skip("costly_class_quick_tier")
    if e["cost"] >= 1 and (p["slot"] // len(keys)) % 3 != 0:
        raise Skip("costly_class_thinned")
    rng = np.random.default_rng(p["seed"])
    if C.draw(ctx, cls, ent, rng, n=40) is None:
        raise Skip("no_admissible_draw")


# ---- Riemann: compressive shocks, monotone fans, bounded smeared cells --------------------------------------------------
def gen_rm(which):
    def g(rng, i, tier):
        st = RC.gen_state(rng)
        xd0, t = RC.gen_frame(rng, st)
        return dict(which=which, st=st, xd0=xd0, t=t)
    return g


def run_rm(ctx, p):
    which, st, xd0, t = p["which"], p["st"], p["xd0"], p["t"]
    name = which + "_Solver"
    gen = which == "GenEOS"
    pat, V = RC.probe(ctx, which, st, xd0, t)
    span = max(float(V.max() - V.min()), 1e-3 * (abs(V).max() + 1e-300)) * t
    a, b = xd0 + t * V.min() - 0.3 * span, xd0 + t * V.max() + 0.3 * span
    s = RC.make_solver(ctx, which, st, xd0, a, b)
    x = np.linspace(a, b, 4001)
    sol = ctx.call(s, x, t)
    pr, rho, u = (np.asarray(sol[k], float) for k in ("pressure", "density", "velocity"))
    X = xd0 + t * V
    cs = math.sqrt(st["gl"] * st["pl"] / st["rl"]) + math.sqrt(st["gr"] * st["pr"] / st["rr"])
    h = (b - a) / 10000.0
    # fans
    fans = []
    if pat[0] == "R":
        fans.append(("left", X[0], X[1], -1.0, +1.0))      # p, rho fall and u rises across a left fan (in +x)
    if pat[2] == "R":
        fans.append(("right", X[-2], X[-1], +1.0, +1.0))   # p, rho rise and u rises across a right fan
    for side, lo, hi, sp, su in fans:
        m = (x > lo) & (x < hi)
        if m.sum() < 5:
            continue
        tolr = 1e-12 if not gen else 1e-7
        okp, wp = mono(pr[m], sp, tolr * pr.max())
        okr, wr = mono(rho[m], sp, tolr * rho.max())
        oku, wu = mono(u[m], su, tolr * cs)
        ctx.observe("adm.fan", name, okp and okr and oku, branch="%s fan of %s" % (side, pat), measure=max(wp / pr.max(), wr / rho.max(), wu / cs),
                    tol=tolr, detail=dict(st=st, t=t, n=int(m.sum())))
    # shocks: compressive (star pressure/density above the undisturbed side)
    ic = 1 if pat[0] == "S" else 2
    star_l = ctx.call(s, np.array([0.5 * (X[ic - 1] + X[ic])]), t) if ic >= 1 else None
    star_r = ctx.call(s, np.array([0.5 * (X[ic] + X[ic + 1])]), t) if ic + 1 < len(X) else None
    if pat[0] == "S" and star_l is not None:
        ok = float(star_l["pressure"][0]) > st["pl"] and float(star_l["density"][0]) > st["rl"]
        ctx.observe("adm.shock", name, ok, branch="left shock of " + pat, detail=dict(st=st, star=[float(star_l["pressure"][0]), float(star_l["density"][0])]))
    if pat[2] == "S" and star_r is not None:
        ok = float(star_r["pressure"][0]) > st["pr"] and float(star_r["density"][0]) > st["rr"]
        ctx.observe("adm.shock", name, ok, branch="right shock of " + pat, detail=dict(st=st, star=[float(star_r["pressure"][0]), float(star_r["density"][0])]))
    # global bounds: every value between the extremes of the four constant states (no over/undershoot anywhere)
    consts_p = [st["pl"], st["pr"]] + ([float(star_l["pressure"][0])] if star_l is not None else [])
    lo_p, hi_p = min(consts_p), max(consts_p)
    ok = bool(np.all(pr >= lo_p * (1 - 1e-9)) and np.all(pr <= hi_p * (1 + 1e-9)))
    ctx.observe("adm.bounded", name, ok, branch="pressure within the constant states " + pat, measure=float(max(lo_p - pr.min(), pr.max() - hi_p)) / hi_p,
                detail=dict(st=st, pmin=float(pr.min()), pmax=float(pr.max()), lo=lo_p, hi=hi_p))
    if gen:
        # smeared cells: sample densely around each jump
        for j, v in enumerate(V):
            xx = np.linspace(X[j] - 3 * h, X[j] + 3 * h, 61)
            loc = ctx.call(s, xx, t)
            for f in ("pressure", "density", "velocity", "specific_internal_energy"):
                vals = np.asarray(loc[f], float)
                lo_, hi_ = min(vals[0], vals[-1]), max(vals[0], vals[-1])
                sc = max(abs(lo_), abs(hi_), cs if f == "velocity" else 0.0, 1e-300)
                ok = bool(np.all(vals >= lo_ - 1e-6 * sc) and np.all(vals <= hi_ + 1e-6 * sc))
                ctx.observe("adm.bounded", name, ok, branch="smeared cell %s (wave %d of %s)" % (f, j, pat), measure=float(max(lo_ - vals.min(), vals.max() - hi_)) / sc,
                            tol=1e-6, detail=dict(st=st, t=t))


# ---- Mader --------------------------------------------------------------------------------------------------------------
def gen_mader(rng, i, tier):
    kw = C.gen_mader(rng, None)
    if i % 3 == 0:
        kw["gamma"] = 3.0
    return dict(kw=kw, t=logu(rng, 1e-6, 1e-5) * (1.0 if kw["d_cj"] > 100.0 else 1e6), n=int(choice(rng, [50, 100, 400, 1000])), off=uni(rng, -0.5, 0.5), exact=(i % 2 == 0))


def run_mader(ctx, p):
    from exactpack.solvers.mader.timmes import Mader
    kw, t, n = p["kw"], p["t"], p["n"]
    s = ctx.make(Mader, **kw)
    g, Dj, up = kw["gamma"], kw["d_cj"], kw["u_piston"]
    L = Dj * t
    # tail of the Taylor wave in the detonation frame coordinate xdet = D t - x
    ucj, ccj = Dj / (g + 1.0), g * Dj / (g + 1.0)
    um = (g - 1.0) * (ucj - 2.0 * ccj / (g - 1.0)) / (g + 1.0)
    xp = 0.5 * (g + 1.0) * t * (up - um)
    x_tail = L - xp                                   # lab position of the tail
    dx = L / n
    # shift the grid so that a cell centre falls within off*0.1*dx of the tail (the solver's transition test is
    # |xdet - xp| <= 0.1 dx with dx = (x[-1]-x[0])/n)
    k0 = int(round(x_tail / dx - 0.5))
    centre = (k0 + 0.5) * dx
    shift = (x_tail - centre) + (p["off"] * 0.19 * dx if p["exact"] else p["off"] * dx)
    x = dx * (np.arange(n) + 0.5) + shift
    x = x[(x > 0.51 * dx) & (x < L - 0.51 * dx)]      # cells entirely between the front and the wall
    if len(x) < 10:
        raise Skip("grid_too_small")
    sol = ctx.call(s, x, t)
    u, pr, c, rho, xdet = (np.asarray(sol[k], float) for k in ("velocity", "pressure", "sound_speed", "density", "xdet"))
    dxs = (x[-1] - x[0]) / len(x)
    trans = np.abs(xdet - xp) <= 0.1 * dxs
    br = ("gamma=3" if g == 3.0 else "gamma!=3") + (" transition cell hit" if trans.any() else " no transition cell")
    # Taylor wave: from the constant state (u_piston) at the tail, everything rises monotonically to the front
    # (x decreasing = xdet increasing); as function of x: non-increasing
    tolm = 1e-9
    ok1, w1 = mono(u, -1.0, tolm * Dj)
    ok2, w2 = mono(pr, -1.0, tolm * kw["p_cj"])
    ok3, w3 = mono(rho, -1.0, tolm * rho.max())
    ok4, w4 = mono(c, -1.0, tolm * Dj)
    ctx.observe("adm.fan", "Mader", ok1 and ok2 and ok3 and ok4, branch="Taylor wave monotone " + br, measure=max(w1 / Dj, w2 / kw["p_cj"], w3 / rho.max(), w4 / Dj),
                tol=tolm, detail=dict(kw=kw, t=t, n=len(x), transition_cells=int(trans.sum()),
                                      worst=dict(u=w1, p=w2, rho=w3, c=w4)))
    # bounded by the CJ state and the constant state behind the wave
    pconst = kw["p_cj"] * (1 + (g - 1.0) * (up - ucj) / (2.0 * ccj)) ** (2.0 * g / (g - 1.0))
    ok = bool(np.all(u >= up - 1e-9 * Dj) and np.all(u <= ucj * (1 + 1e-9)) and np.all(pr >= pconst * (1 - 1e-9)) and np.all(pr <= kw["p_cj"] * (1 + 1e-9)))
    ctx.observe("adm.bounded", "Mader", ok, branch="between constant state and CJ state " + br,
                measure=float(max(up - u.min(), u.max() - ucj) / Dj), detail=dict(kw=kw, t=t, n=len(x), umin=float(u.min()), umax=float(u.max()), u_cj=ucj,
                                                                                  pmin=float(pr.min()), pmax=float(pr.max()), p_const=pconst))
    if trans.any():
        j = int(np.where(trans)[0][0])
        if 0 < j < len(x) - 1:
            for f, v in (("velocity", u), ("pressure", pr), ("density", rho), ("sound_speed", c)):
                lo_, hi_ = min(v[j - 1], v[j + 1]), max(v[j - 1], v[j + 1])
                sc = max(abs(hi_), abs(lo_), 1e-300)
                ok = lo_ - 1e-9 * sc <= v[j] <= hi_ + 1e-9 * sc
                ctx.observe("adm.bounded", "Mader", ok, branch="transition cell %s between its neighbours" % f, measure=float(max(lo_ - v[j], v[j] - hi_)) / sc,
                            detail=dict(kw=kw, t=t, n=len(x), cell=float(v[j]), neighbours=[float(v[j - 1]), float(v[j + 1])]))


# ---- EP piston -------------------------------------------------------------------------------------------------------------
def gen_pis(rng, i, tier):
    kw = C.gen_piston(rng, None)
    kw["model"] = ["hypo", "hyperIfin", "hyperFin"][i % 3]
    return dict(kw=kw, f=uni(rng, 0.3, 0.9), xmax=logu(rng, 0.5, 5))


def run_pis(ctx, p):
    from exactpack.solvers.ep_piston.ep_piston import EPpiston
    kw = p["kw"]
    s = ctx.make(EPpiston, **kw)
    if not (s.up > s.vel_y) or not (s.wv_pl < s.wv_el):
        raise Skip("outside_two_wave_regime")
    xmax = p["xmax"]
    t = p["f"] * xmax / s.wv_el
    xp, xe = s.wv_pl * t, s.wv_el * t
    x = np.unique(np.concatenate([np.linspace(0, xmax, 401), [xp, xe, np.nextafter(xp, 0), np.nextafter(xp, xmax), np.nextafter(xe, 0), np.nextafter(xe, xmax)]]))
    x[-1] = xmax
    sol = ctx.call(s, x, t)
    rho, pr, u, e = (np.asarray(sol[k], float) for k in ("density", "pressure", "velocity", "specific_internal_energy"))
    br = kw["model"]
    # material is compressed step by step towards the piston: rho, p, u, e non-increasing in x
    ok = all(mono(v, -1.0, 0.0)[0] for v in (rho, pr, u, e))
    ctx.observe("adm.shock", "EPpiston", ok, branch="compressive two-wave structure " + br, detail=dict(kw=kw, t=t, plastic_front=xp, elastic_front=xe))
    # a point exactly on a front belongs to one of the two adjacent states
    for lab, xf in (("plastic front", xp), ("elastic front", xe)):
        j = int(np.argmin(np.abs(x - xf)))
        states = {(rho[j - 1], pr[j - 1], u[j - 1]), (rho[j + 1], pr[j + 1], u[j + 1])}
        ctx.observe("adm.bounded", "EPpiston", (rho[j], pr[j], u[j]) in states, branch="point on the %s %s" % (lab, br),
                    detail=dict(kw=kw, t=t, x=float(x[j]), value=[float(rho[j]), float(pr[j]), float(u[j])], neighbours=[list(map(float, st)) for st in states]))


def gen_sub(rng, i, tier):
    kw = C.gen_piston(rng, None)
    return dict(kw=kw, frac=choice(rng, [0.0, uni(rng, 0.01, 0.9)]))


def run_sub(ctx, p):
    """piston speeds accepted by the constructor (up >= 0) but below the elastic precursor's particle velocity"""
    from exactpack.solvers.ep_piston.ep_piston import EPpiston
    kw = dict(p["kw"])
    s0 = ctx.make(EPpiston, **kw)
    kw["up"] = p["frac"] * float(s0.vel_y)
    s = ctx.make(EPpiston, **kw)
    xmax = 1.0
    t = 0.5 * xmax / s.wv_el
    ctx.call(s, np.linspace(0.0, xmax, 41), t)


# ---- EHEP, SDRZ, Noh, Sedov, Guderley sequences -----------------------------------------------------------------------------
def gen_seq(rng, i, tier):
    return dict(entry=["EscapeOfHEProducts", "SteadyDetonationReactionZone", "Noh", "Sedov", "Guderley"][i % 5], seed=int(rng.integers(2 ** 31)))


def run_seq(ctx, p):
    ent = p["entry"]
    e = C.CAT[ent]
    cls = C.load(e["path"])
    rng = np.random.default_rng(p["seed"])
    if e["cost"] >= 1 and p["seed"] % 2 and not ctx.thorough():
        raise Skip("costly_class_thinned")
    d = C.draw(ctx, cls, ent, rng, n=3)
    if d is None:
        raise Skip("no_admissible_draw")
    s, t, kw = d["solver"], d["t"], d["full"]
    if ent == "EscapeOfHEProducts":
        D, xt = kw["D"], kw["xtilde"]
        t = uni(rng, 0.1, 0.9) * xt / D
        x = np.linspace(-0.2 * D * t, xt, 801)
        sol = ctx.call(s, x, t)
        reg = np.array([str(r) for r in sol["region"]])
        rho, pr = np.asarray(sol["density"], float), np.asarray(sol["pressure"], float)
        behind = (reg == "I") | (reg == "II") | (reg == "III") | (reg == "IV") | (reg == "V")
        ok = bool(np.all(rho[behind] > 0)) and bool(np.all(pr[behind] >= 0))
        # detonation is compressive: CJ state denser than the unburnt explosive
        front = np.where(reg == "0H")[0]
        if front.size and front[0] > 0:
            j = front[0]
            ok2 = rho[j - 1] > rho[j] and pr[j - 1] > pr[j]
            ctx.observe("adm.shock", "EscapeOfHEProducts", bool(ok2), branch="detonation front compressive", detail=dict(kw=kw, t=t))
        # Taylor wave behind the front (region I): p, rho rise monotonically towards the front
        mI = reg == "I"
        if mI.sum() > 3:
            okm = mono(pr[mI], +1.0, 1e-12 * pr.max())[0] and mono(rho[mI], +1.0, 1e-12 * rho.max())[0]
            ctx.observe("adm.fan", "EscapeOfHEProducts", okm, branch="region I monotone", detail=dict(kw=kw, t=t, n=int(mI.sum())))
        ctx.observe("adm.bounded", "EscapeOfHEProducts", ok, branch="products positive", detail=dict(kw=kw, t=t))
    elif ent == "SteadyDetonationReactionZone":
        D = kw["D"]
        x = np.linspace(0.0, D * t * (1 - 1e-9), 801)
        sol = ctx.call(s, x, t)
        pr, rho, u, lam = (np.asarray(sol[k], float) for k in ("pressure", "density", "velocity", "reaction_progress"))
        m = pr > 0
        # from the CJ state (far behind) up to the von Neumann spike at the front: p, rho, u rise; lambda falls
        ok = mono(pr[m], +1.0, 1e-9 * pr.max())[0] and mono(rho[m], +1.0, 1e-9 * rho.max())[0] and mono(u[m], +1.0, 1e-9 * D)[0] and mono(lam[m], -1.0, 1e-9)[0]
        ctx.observe("adm.fan", "SteadyDetonationReactionZone", ok, branch="reaction zone monotone " + ("t<=1" if t <= 1 else "t>1"), detail=dict(kw=kw, t=t, n=int(m.sum())))
        Pj = kw["rho_0"] * D * D / (kw["gamma"] + 1.0)
        okb = bool(np.all(pr[m] >= Pj * (1 - 1e-9)) and np.all(pr[m] <= 2 * Pj * (1 + 1e-9)) and np.all(lam >= 0) and np.all(lam <= 1))
        ctx.observe("adm.bounded", "SteadyDetonationReactionZone", okb, branch="between CJ and von Neumann state", detail=dict(kw=kw, t=t, pmin=float(pr[m].min()), pmax=float(pr[m].max()), Pj=Pj))
    elif ent == "Noh":
        rs = abs(kw.get("u0", -1.0)) * t * (kw.get("gamma", 5 / 3) - 1) / 2
        x = np.array([0.5 * rs, rs * (1 - 1e-9), rs * (1 + 1e-9), 2 * rs])
        sol = ctx.call(s, x, t)
        ok = float(sol["density"][1]) > float(sol["density"][2]) and float(sol["pressure"][1]) > float(sol["pressure"][2])
        ctx.observe("adm.shock", type(s).__name__, ok, branch="g=%s" % d["geom"], detail=dict(kw=d["passed"], t=t))
    elif ent == "Sedov":
        ctx.call(s, np.array([1.0]), t)
        r2 = float(s.r2)
        ins = ctx.call(s, np.array([0.5 * r2, r2 * (1 - 1e-9)]), t)
        out = ctx.call(s, np.array([0.5 * r2, r2 * (1 + 1e-3) + 1e-300]), t)
        ok = float(ins["density"][1]) > float(out["density"][1]) and float(ins["pressure"][1]) > 0 and float(ins["velocity"][1]) > 0
        ctx.observe("adm.shock", "Sedov", ok, branch="g=%s %s" % (d["geom"], s.solution_type), detail=dict(kw=d["passed"], t=t))
        # the same object at earlier and later times (a time loop run backwards, a restart): the shock stays compressive and
        # the shell right behind it (0.9 ... 1 r2, far outside any vacuum hole) stays filled
        for f in (0.5, 0.15, 0.05, 2.0):
            tt = t * f
            ctx.call(s, np.array([1.0]), tt)
            r2 = float(s.r2)
            ins = ctx.call(s, np.array([0.9 * r2, 0.97 * r2, r2 * (1 - 1e-9)]), tt)
            out = ctx.call(s, np.array([0.5 * r2, r2 * (1 + 1e-3) + 1e-300]), tt)
            ok = (float(ins["density"][2]) > float(out["density"][1]) and float(ins["pressure"][2]) > 0 and float(ins["velocity"][2]) > 0
                  and bool(np.all(np.asarray(ins["density"], float) > 0)))
            ctx.observe("adm.shock", "Sedov", ok, branch="g=%s %s, object re-used at %g t" % (d["geom"], s.solution_type, f),
                        detail=dict(kw=d["passed"], t=tt, behind=[float(v) for v in ins["density"]], ahead=float(out["density"][1])))
    else:
        # Guderley (positivity: online monitor on every call).  The converging shock (before the collapse time) compresses
        # the gas at rest inside it, the reflected shock (after it) compresses the in-falling gas outside it: density and
        # pressure rise from the side the front is moving into to the side it has passed.
        from .c02 import _gud_locate, FACTOR_C
        for which, tL in (("incoming", -uni(rng, 0.3, 0.9)), ("reflected", uni(rng, 0.2, 1.0))):
            tt = FACTOR_C * (tL + 1.0)
            xs = np.geomspace(0.02, 4.0, 140)
            sc = ctx.call(s, xs, tt)
            dn, un = np.asarray(sc["density"], float), np.asarray(sc["velocity"], float)
            rel = np.abs(np.diff(dn)) / np.maximum(np.abs(dn[1:]), np.abs(dn[:-1]))
            cells = np.where(rel > 0.05)[0]
            if cells.size == 0:
                ctx.count("guderley_no_front_in_scan:" + which)
                continue
            j = int(max(cells, key=lambda k: abs(un[k + 1] - un[k])))      # the main shock carries the largest velocity jump
            got = _gud_locate(ctx, s, tt, 0.75 * xs[j], 1.3 * xs[j + 1], levels=5, n=40)
            if got is None:
                ctx.count("guderley_front_left_bracket:" + which)
                continue
            eps = 1e-6 * got[0]
            sol = ctx.call(s, np.array([got[0] - eps, got[0] + eps]), tt)
            rho_in, rho_out = float(sol["density"][0]), float(sol["density"][1])
            p_in, p_out = float(sol["pressure"][0]), float(sol["pressure"][1])
            ok = (rho_out > rho_in and p_out > p_in) if which == "incoming" else (rho_in > rho_out and p_in > p_out)
            ctx.observe("adm.shock", "Guderley", bool(ok), branch="%s shock g=%s" % (which, d["geom"]),
                        detail=dict(kw=d["passed"], t=tt, r_shock=got[0], inside=dict(rho=rho_in, p=p_in), outside=dict(rho=rho_out, p=p_out)))


# ---- Su-Olson ---------------------------------------------------------------------------------------------------------------------
def gen_so(rng, i, tier):
    return dict(kw=C.gen_so(rng, None), tau=logu(rng, 0.1, 10))


def run_so(ctx, p):
    from exactpack.solvers.suolson.suolson import SuOlson
    from .c18 import ASOL, CLIGHT, RT3
    kw = p["kw"]
    s = ctx.make(SuOlson, **kw)
    eps = 4 * ASOL / kw["alpha"]
    tau = p["tau"]
    t = tau * kw["alpha"] / (4 * ASOL * CLIGHT * kw["opac"])
    xw = min(RT3 * tau / eps + 2 * math.sqrt(tau / eps), 8.0)
    x = np.linspace(0.02, xw, 9) / (RT3 * kw["opac"])
    a = ctx.call(s, x, t)
    b = ctx.call(s, x, 1.5 * t)
    Tr, Tm = np.asarray(a["temperature_rad"], float), np.asarray(a["temperature_mat"], float)
    Tr2, Tm2 = np.asarray(b["temperature_rad"], float), np.asarray(b["temperature_mat"], float)
    Tb = kw["trad_bc_ev"]
    # temperatures are fourth roots of energy densities known to ~1e-5 (absolute, in units of the boundary value):
    # comparisons are made on u, v
    U, V, U2, V2 = (Tr / Tb) ** 4, (Tm / Tb) ** 4, (Tr2 / Tb) ** 4, (Tm2 / Tb) ** 4
    tol = 5e-5
    ok = bool(np.all(V >= -tol) and np.all(V <= U + tol) and np.all(U <= 1 + tol))
    ctx.observe("adm.suolson", "SuOlson", ok, branch="0<=T_mat<=T_rad<=T_bc", detail=dict(kw=kw, tau=tau, U=U.tolist(), V=V.tolist()))
    okx = mono(U, -1.0, tol)[0] and mono(V, -1.0, tol)[0]
    ctx.observe("adm.suolson", "SuOlson", okx, branch="monotone in x", detail=dict(kw=kw, tau=tau, U=U.tolist(), V=V.tolist()))
    okt = bool(np.all(U2 >= U - tol) and np.all(V2 >= V - tol))
    ctx.observe("adm.suolson", "SuOlson", okt, branch="monotone in t", detail=dict(kw=kw, tau=tau, U=U.tolist(), U_later=U2.tolist()))


def reach(tot, tier):
    seen = set(k.split("|")[2] for k in tot["stats"] if k.startswith("adm.positive|"))
    out = []
    for f in LISTED:
        if f == "Sn_Solver" and tier == "quick":
            continue
        if f not in seen:
            out.append("positivity contract never evaluated for %s" % f)
    hit = sum(st["evals"] for k, st in tot["stats"].items() if k.startswith("adm.bounded|Mader|transition cell"))
    if hit < 8:
        out.append("Mader transition cell hit only %d times" % (hit // 4))
    return out


MON_ID = "C17"


# ---- the repository's own test-suite as a workload under the boundary monitors (thorough tier) --------------------------
def gen_suite(rng, i, tier):
    return dict(which=MON_ID)


def run_suite(ctx, p):
    import glob
    import json
    import os
    import shutil
    import subprocess
    import sys
    import tempfile
    from ..core import VERIF
    if p.get("test"):
        tests = [p["test"]]
    else:
        tests = ["exactpack/tests"]
    repo = os.environ.get("EXACTPACK_REPO", "/repo")
    out = tempfile.mkdtemp(prefix="rtm_suite_")
    env = dict(os.environ, EXACTPACK_VERIF="1", RTM_SUITE_OUT=out, RTM_SUITE_MONITORS=MON_ID, MPLBACKEND="Agg")
    try:
        cmd = [sys.executable, "-m", "pytest", "-q", "-p", "no:cacheprovider", "-p", "rtm.pytest_plugin", "--timeout=900", "-n", "8"] + tests
        pr = subprocess.run(cmd, cwd=repo, env=env, capture_output=True, text=True, timeout=5400)
        tail = pr.stdout.strip().split("\n")[-1] if pr.stdout.strip() else ""
        ctx.count("suite_pytest_exit_%s" % pr.returncode)
        n = 0
        for f in glob.glob(os.path.join(out, "suite_*.json")):
            with open(f) as fh:
                d = json.load(fh)
            n += d.get("boundary_events", 0)
            ctx.absorb(d, unit="suite")
        ctx.count("suite_boundary_events", n)
        if n == 0:
            raise Skip("suite_replay_observed_nothing: " + tail[:80])
    finally:
        shutil.rmtree(out, ignore_errors=True)


UNITS = [
    Unit("catalogue", gen_cat, run_cat, quick=140, thorough=1400, min_nontrivial=60),
    Unit("riemann.igeos", gen_rm("IGEOS"), run_rm, quick=640, thorough=4800, min_nontrivial=300),
    Unit("riemann.geneos", gen_rm("GenEOS"), run_rm, quick=12, thorough=160, min_nontrivial=20),
    Unit("mader", gen_mader, run_mader, quick=160, thorough=3200, min_nontrivial=200),
    Unit("piston", gen_pis, run_pis, quick=90, thorough=1800, min_nontrivial=100),
    Unit("piston.subyield", gen_sub, run_sub, quick=12, thorough=120, min_nontrivial=6),
    Unit("sequence", gen_seq, run_seq, quick=100, thorough=2000, min_nontrivial=60),
    Unit("suolson", gen_so, run_so, quick=24, thorough=480, min_nontrivial=40),
    Unit("suite", gen_suite, run_suite, quick=0, thorough=1, min_nontrivial=100),
]

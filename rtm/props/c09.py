"""C09 - Riemann and burn-time solutions respect mirror, Galilean and rigid symmetry.

Monitors (pairs of public calls related by the symmetry; outputs compared after the map)
  mirror     x -> -x: states exchanged, velocities negated, membrane reflected
  boost      u -> u+V on both states, x -> x+Vt; including V = -u_l and V = -u_r (a state at rest)
  rigid      burn times under rotation about / reflection through the symmetry axis (Kenamond 2),
             arbitrary rotation+reflection (Kenamond 3, DSD) and rotation+translation (Kenamond 1)
"""
import math

import numpy as np

from ..core import Unit, Skip, SolverRaised, logu, uni, choice, sgn
from .. import riemann_common as RC
from .c13 import gen_k1, gen_k2, gen_k3, gen_dsd, T_of

RULE = ("random Riemann states as in C04 (all four patterns, unequal velocities and gammas), each "
        "compared with its mirror image and with boosted copies (random V of both signs, V=-u_l, "
        "V=-u_r); burn-time layouts as in C13 with random orthogonal maps preserving the documented "
        "symmetry.  distinct = (monitor, solver, pattern/geometry, case); non-trivial = the compared "
        "fields are not constant over the sample points.")
ASSUME = ["points closer than 1e-9 (IGEOS) / 3 internal cells (GenEOS) to a wave position are not compared "
          "(the value exactly on a discontinuity is a convention)",
          "GenEOS tolerance 2e-5 of the field scale (internal tables), IGEOS 1e-9"]

F = ("density", "pressure", "specific_internal_energy", "velocity")


def gen_rm(which):
    def g(rng, i, tier):
        st = RC.gen_state(rng)
        xd0, t = RC.gen_frame(rng, st)
        c = math.sqrt(st["gl"] * st["pl"] / st["rl"]) + math.sqrt(st["gr"] * st["pr"] / st["rr"])
        return dict(which=which, st=st, xd0=xd0, t=t, V=uni(rng, -2, 2) * c,
                    fr=[uni(rng, 0.02, 0.98) for _ in range(6)])
    return g


def sample_points(V, xd0, t, fr, margin):
    span = max(float(V.max() - V.min()), 1e-3 * (abs(V).max() + 1e-300)) * t
    X = [xd0 + t * V.min() - 0.4 * span] + [xd0 + t * v for v in V] + [xd0 + t * V.max() + 0.4 * span]
    pts = []
    for k in range(len(X) - 1):
        lo, hi = X[k] + margin, X[k + 1] - margin
        if hi <= lo:
            continue
        pts.extend(lo + f * (hi - lo) for f in fr)
    return np.array(sorted(pts)), X[0], X[-1], span


def cmp_fields(ctx, mon, name, branch, A, B, usign, ushift, tol, scales, detail):
    worst, wf = 0.0, None
    nontriv = False
    for f in F:
        a = np.array(A[f], dtype=float)
        b = np.array(B[f], dtype=float)
        if f == "velocity":
            b = usign * b - ushift
        sc = scales["u"] if f == "velocity" else max(float(np.max(np.abs(a))), 1e-300)
        d = max(float(np.max(np.abs(a - b))) - scales.get("floor_" + f, 0.0), 0.0) / sc
        if not math.isfinite(d):
            d = float("inf")
        if d > worst:
            worst, wf = d, f
        if np.ptp(a) > 1e-9 * sc:
            nontriv = True
    detail = dict(detail)
    detail["worst_field"] = wf
    ctx.observe(mon, name, worst <= tol, branch=branch, measure=worst, tol=tol, detail=detail, nontrivial=nontriv)


def run_rm(ctx, p):
    which, st, xd0, t, V = p["which"], p["st"], p["xd0"], p["t"], p["V"]
    name = which + "_Solver"
    gen = which == "GenEOS"
    pat, Vr = RC.probe(ctx, "IGEOS", st, xd0, t)     # cheap; only used to place sample points
    span0 = max(float(Vr.max() - Vr.min()), 1e-3 * (abs(Vr).max() + 1e-300)) * t
    wa, wb = xd0 + t * Vr.min() - 0.5 * span0, xd0 + t * Vr.max() + 0.5 * span0
    margin = 3.5 * (wb - wa) / 10000.0 if gen else 1e-9 * max(abs(wa), abs(wb), span0)
    x, lo, hi, span = sample_points(Vr, xd0, t, p["fr"], margin)
    if len(x) < 4:
        raise Skip("no_room_for_points")
    cs = math.sqrt(st["gl"] * st["pl"] / st["rl"]) + math.sqrt(st["gr"] * st["pr"] / st["rr"])
    scales = dict(u=cs)
    tol = 2e-5 if gen else 1e-9
    s0 = RC.make_solver(ctx, which, st, xd0, wa, wb)
    A = ctx.call(s0, x, t)
    pat = RC.pattern_of(s0.soln_type)
    du = "du=0" if st["ul"] == st["ur"] else "du!=0"
    if not gen:
        scales.update(RC.bisect_floors(A, st))
    # ---- mirror -----------------------------------------------------------------------------
    sm = dict(rl=st["rr"], ul=-st["ur"], pl=st["pr"], gl=st["gr"], rr=st["rl"], ur=-st["ul"], pr=st["pl"], gr=st["gl"])
    s1 = RC.make_solver(ctx, which, sm, -xd0, -wb, -wa)
    B = ctx.call(s1, -x[::-1], t)
    Bm = {f: np.array(B[f])[::-1] for f in F}
    cmp_fields(ctx, "mirror", name, "%s %s" % (pat, du), A, Bm, -1.0, 0.0, tol, scales,
               dict(st=st, xd0=xd0, t=t, mirror_pattern=RC.pattern_of(s1.soln_type)))
    want = pat[::-1]
    ctx.observe("mirror", name, RC.pattern_of(s1.soln_type) == want, branch="pattern " + pat,
                detail=dict(pattern=pat, mirror_pattern=RC.pattern_of(s1.soln_type)))
    # ---- boosts -------------------------------------------------------------------------------
    for label, Vb in (("random", V), ("ul->0", -st["ul"]), ("ur->0", -st["ur"])):
        if Vb == 0.0 and label != "random":
            continue
        sb = dict(st)
        sb["ul"], sb["ur"] = st["ul"] + Vb, st["ur"] + Vb
        if label == "ul->0":
            sb["ul"] = 0.0
        if label == "ur->0":
            sb["ur"] = 0.0
        s2 = RC.make_solver(ctx, which, sb, xd0, wa + Vb * t, wb + Vb * t)
        try:
            C = ctx.call(s2, x + Vb * t, t)
        except SolverRaised:
            ctx.count("boost_raised:" + name)
            continue
        tolb = tol * (1 + abs(Vb) / cs) + (2e-12 * abs(Vb) * t / max(margin, 1e-300) if not gen else 0.0) * 0
        cmp_fields(ctx, "boost", name, "%s %s %s" % (pat, label, du), A, C, 1.0, Vb, tolb, scales,
                   dict(st=st, xd0=xd0, t=t, V=Vb, boosted_pattern=RC.pattern_of(s2.soln_type)))
        if gen:
            break   # one boost per general-EOS case (each call costs seconds)


# ---- burn-time symmetries -------------------------------------------------------------------
def rand_orth(rng, g):
    q, r = np.linalg.qr(rng.normal(size=(g, g)))
    return q * np.sign(np.diag(r))


def close(ctx, name, branch, T1, T2, slack, detail):
    sc = max(float(np.max(np.abs(T1))), 1e-300)
    d = float(np.max(np.abs(T1 - T2)))
    if not math.isfinite(d):
        d = float("inf")
    ctx.observe("rigid", name, d <= 1e-12 * sc + slack, branch=branch, measure=d / sc, tol=1e-12, detail=detail,
                nontrivial=float(np.ptp(T1)) > 0)


def run_k1(ctx, p):
    from exactpack.solvers.kenamond import Kenamond1
    g = p["geometry"]
    rng = np.random.default_rng(int(abs(p["t_d"]) * 1e6) + g)
    xd = np.array(p["x_d"])
    pts = xd + np.array(p["pts"])
    s = ctx.make(Kenamond1, geometry=g, D=p["D"], x_d=tuple(p["x_d"]), t_d=p["t_d"])
    T = T_of(ctx, s, pts)
    Q = rand_orth(rng, g)
    sh = rng.normal(size=g) * p["L"]
    if rng.random() < 0.5:
        # far from the origin (coordinates of a part in a large assembly): translation by 1 ... 1e7 times the size of the
        # configuration; the comparison allows the rounding of the translated *inputs*, eps |shift| / D
        sh = sh * 10.0 ** rng.uniform(0, 7)
    xd2 = Q @ xd + sh
    s2 = ctx.make(Kenamond1, geometry=g, D=p["D"], x_d=tuple(float(v) for v in xd2), t_d=p["t_d"])
    T2 = T_of(ctx, s2, pts @ Q.T + sh)
    # translation by |sh| costs eps*(|x|+|sh|)/D of absolute accuracy
    slack = 8e-16 * (np.abs(pts).max() + np.abs(sh).max() + np.abs(xd).max()) / p["D"] * 4
    close(ctx, "Kenamond1", "rotation+translation g=%d" % g, T, T2, slack, dict(D=p["D"], shift=sh.tolist()))


def axis_orth(rng, g):
    """orthogonal map that fixes the last axis (2-D: x -> +-x; 3-D: rotation/reflection about z)"""
    Q = np.eye(g)
    if g == 2:
        Q[0, 0] = -1.0
    else:
        Q[:2, :2] = rand_orth(rng, 2)
    return Q


def run_k2(ctx, p):
    from exactpack.solvers.kenamond import Kenamond2
    g, R, D1, D2 = p["geometry"], p["R"], p["D1"], p["D2"]
    t_d = list(p["t_d"])
    for k in (0, 1, 3, 4):
        t_d[k] = t_d[k] + 4e-16 * (abs(t_d[k]) + R / D2)
    rng = np.random.default_rng(p["pseed"])
    s = ctx.make(Kenamond2, geometry=g, R=R, D1=D1, D2=D2, dets=list(p["dets"]), t_d=list(t_d))
    pts = rng.uniform(-p["box"], p["box"], size=(80, g))
    pts[:20] *= R / p["box"]
    T = T_of(ctx, s, pts)
    Q = axis_orth(rng, g)
    close(ctx, "Kenamond2", "about-axis g=%d" % g, T, T_of(ctx, s, pts @ Q.T), 0.0, dict(R=R))
    # reflection through the plane perpendicular to the axis: detonators negated ...
    a = p["dets"]
    M = np.eye(g)
    M[-1, -1] = -1.0
    s2 = ctx.make(Kenamond2, geometry=g, R=R, D1=D1, D2=D2, dets=[-a[0], -a[1], -a[2], -a[3]], t_d=list(t_d))
    close(ctx, "Kenamond2", "axis-reflection (dets negated) g=%d" % g, T, T_of(ctx, s2, pts @ M.T), 0.0, dict(dets=a))
    # ... or, equivalently, listed in reverse order with the times reversed
    s3 = ctx.make(Kenamond2, geometry=g, R=R, D1=D1, D2=D2, dets=[-a[3], -a[2], -a[1], -a[0]],
                  t_d=[t_d[4], t_d[3], t_d[2], t_d[1], t_d[0]])
    close(ctx, "Kenamond2", "axis-reflection (lists reversed) g=%d" % g, T, T_of(ctx, s3, pts @ M.T), 0.0, dict(dets=a))


def run_k3(ctx, p):
    from exactpack.solvers.kenamond import Kenamond3
    g, R, D = p["geometry"], p["R"], p["D"]
    rng = np.random.default_rng(p["pseed"])
    xd = np.array(p["x_d"])
    s = ctx.make(Kenamond3, geometry=g, R=R, D=D, x_d=tuple(p["x_d"]), t_d=p["t_d"])
    lod = float(np.linalg.norm(xd))
    pts = []
    while len(pts) < 80:
        q = rng.uniform(-2.5 * lod, 2.5 * lod, size=g)
        if np.linalg.norm(q) > R * 1.001:
            pts.append(q)
    # plus the places where the obstacle geometry changes character (rings hugging the obstacle, both shadow boundaries)
    from .c13 import k3_feature_points
    w = rng.normal(size=g)
    w = w - np.dot(w, xd) * xd / lod ** 2
    w = w / np.linalg.norm(w)
    pts = np.vstack([np.array(pts), k3_feature_points(xd, R, w)])
    T = T_of(ctx, s, pts)
    Q = rand_orth(rng, g)
    s2 = ctx.make(Kenamond3, geometry=g, R=R, D=D, x_d=tuple(float(v) for v in Q @ xd), t_d=p["t_d"])
    T2 = T_of(ctx, s2, pts @ Q.T)
    close(ctx, "Kenamond3", "rotation/reflection g=%d" % g, T, T2, 1e-7 * R / D, dict(R=R, x_d=p["x_d"]))


def run_dsd(ctx, p):
    from exactpack.solvers.dsd import CylindricalExpansion
    kw = {k: p[k] for k in ("r_1", "r_2", "D_CJ_1", "D_CJ_2", "alpha_1", "alpha_2", "t_d")}
    s = ctx.make(CylindricalExpansion, **kw)
    rng = np.random.default_rng(p["pseed"])
    ang = rng.uniform(0, 2 * math.pi, size=60)
    rr = rng.uniform(p["r_1"], 4 * p["r_2"], size=60)
    pts = np.stack([rr * np.cos(ang), rr * np.sin(ang)], axis=1)
    Q = rand_orth(rng, 2)
    T, T2 = T_of(ctx, s, pts), T_of(ctx, s, pts @ Q.T)
    # |p| is recomputed from rotated coordinates: relative rounding eps in r moves T by eps*r*dT/dr
    vmin = min(p["D_CJ_1"] - p["alpha_1"] / p["r_1"], p["D_CJ_2"] - p["alpha_2"] / p["r_2"])
    close(ctx, "CylindricalExpansion", "rotation/reflection", T, T2, 8e-16 * 4 * p["r_2"] / vmin, dict(kw))


def reach(tot, tier):
    out = []
    for pat in RC.PATTERNS:
        n = sum(st["evals"] for k, st in tot["stats"].items() if k.startswith("mirror|IGEOS_Solver|%s " % pat))
        if n < (5 if tier == "quick" else 50):
            out.append("IGEOS mirror pattern %s reached only %d times" % (pat, n))
    for pat in ("SCR", "RCS"):
        n = sum(st["evals"] for k, st in tot["stats"].items()
                if k.startswith("mirror|IGEOS_Solver|%s du!=0" % pat))
        if n < 3:
            out.append("mirror of %s with a velocity difference not reached" % pat)
    return out


UNITS = [
    Unit("riemann.igeos", gen_rm("IGEOS"), run_rm, quick=400, thorough=6000, min_nontrivial=300),
    Unit("riemann.geneos", gen_rm("GenEOS"), run_rm, quick=16, thorough=240, min_nontrivial=10),
    Unit("k1", gen_k1, run_k1, quick=100, thorough=2000, min_nontrivial=50),
    Unit("k2", gen_k2, run_k2, quick=150, thorough=3000, min_nontrivial=100),
    Unit("k3", gen_k3, run_k3, quick=150, thorough=3000, min_nontrivial=50),
    Unit("dsd", gen_dsd, run_dsd, quick=100, thorough=2000, min_nontrivial=50),
]

"""C07 - independent implementations of the same problem agree.

Pairs (triples) of public calls on common parameters, compared field by field to the accuracy of
the less accurate route:
  route.riemann   IGEOS_Solver vs GenEOS_Solver on ideal-gas data (all patterns, unequal gammas)
  route.noh       Noh vs Cog19 (e <-> Gamma T/(gamma-1)) vs black-box Noh with an ideal gas
  route.noh2      Noh2 vs Noh2Cog vs Cog1(b=0, temp0=e0(gamma-1)/Gamma, t -> 1-t, u -> -u)
  route.wrapper   every Planar/Cylindrical/Spherical (and Kidder) wrapper vs its general class
  route.sandwich  PlanarSandwich / Hot / Half vs Rod1D with the mapped (alpha, beta, gamma)
  route.rod       Rod1D BC3 vs the mirror image of BC4 (TL <-> TR, flux sign reversed)
  route.burn      Kenamond 1-3: 2-D solver vs 3-D solver on the common plane x = 0
"""
import math

import numpy as np

from ..core import Unit, Skip, SolverRaised, logu, uni, choice, sgn
from .. import catalogue as C
from .. import riemann_common as RC
from .c16 import make_eos

RULE = ("random parameter sets common to both routes (all geometries, gammas, initial states, times) and random "
        "points away from wave positions.  distinct = (route, class pair, branch, case); non-trivial = the compared "
        "field is not identically zero.")
ASSUME = ["GenEOS is accurate to its internal grid (points within 3 cells of a wave excluded; 2e-5 (speeds) / 5e-5 (fields) of the "
          "field scale, plus three times the change of the GenEOS result itself under a doubling of its table resolution where that base is exceeded)", "series routes share the same truncation (same Nsum)"]

F4 = ("density", "velocity", "pressure", "specific_internal_energy")


def cmp(ctx, mon, name, branch, A, B, fields, tol, detail=None, scales=None, floors=None):
    worst, wf, nontriv = 0.0, None, False
    for f in fields:
        fa, fb = (f, f) if isinstance(f, str) else f
        a = np.asarray(A[fa], dtype=float)
        b = np.asarray(B[fb], dtype=float)
        sc = (scales or {}).get(fa) or max(float(np.nanmax(np.abs(a))) if a.size else 0.0,
                                            float(np.nanmax(np.abs(b))) if b.size else 0.0, 1e-300)
        both_nan = np.isnan(a) & np.isnan(b)
        dd = np.where(both_nan, 0.0, np.abs(a - b))
        dd = np.where(np.isnan(dd), np.inf, dd)
        d = max(float(np.max(dd)) - (floors or {}).get("floor_" + fa, 0.0), 0.0) / sc if dd.size else 0.0
        if d > worst:
            worst, wf = d, fa
        if np.any(a != 0) or np.any(b != 0):
            nontriv = True
    ctx.observe(mon, name, worst <= tol, branch=branch, measure=worst, tol=tol, nontrivial=nontriv,
                detail=dict(detail or {}, worst_field=wf))


# ---- IGEOS vs GenEOS -----------------------------------------------------------------------------------------------
def gen_rm(rng, i, tier):
    st = RC.gen_state(rng)
    xd0, t = RC.gen_frame(rng, st)
    return dict(st=st, xd0=xd0, t=t, fr=[uni(rng, 0.03, 0.97) for _ in range(8)])


def run_rm(ctx, p):
    st, xd0, t = p["st"], p["xd0"], p["t"]
    pat, V = RC.probe(ctx, "IGEOS", st, xd0, t)
    span = max(float(V.max() - V.min()), 1e-3 * (abs(V).max() + 1e-300)) * t
    a, b = xd0 + t * V.min() - 0.4 * span, xd0 + t * V.max() + 0.4 * span
    cell = RC.geneos_cell(ctx, st, xd0, a, b, t)
    X = [a] + [xd0 + t * v for v in V] + [b]
    pts = []
    for k in range(len(X) - 1):
        lo, hi = X[k] + 3.5 * cell, X[k + 1] - 3.5 * cell
        if hi > lo:
            pts.extend(lo + f * (hi - lo) for f in p["fr"])
    x = np.array(sorted(pts))
    si = RC.make_solver(ctx, "IGEOS", st, xd0, a, b)
    sg = RC.make_solver(ctx, "GenEOS", st, xd0, a, b)
    A = ctx.call(si, x, t)
    B = ctx.call(sg, x, t)
    pg = RC.pattern_of(sg.soln_type)
    if pg != pat:
        # next to a boundary between two patterns the routes may legitimately name a wave of negligible strength differently
        # (shock or fan of relative strength below the general route's accuracy, 2e-4): decided on the ideal-gas star pressure
        ic = 1 if pat[0] == "S" else 2
        xs = xd0 + t * V[ic]
        ps = float(ctx.call(si, np.array([xs - 1e-9 * max(abs(xs), span)]), t)["pressure"][0])
        weak = all(abs(ps / pk - 1.0) <= 2e-4 for a_, b_, pk in ((pat[0], pg[0], st["pl"]), (pat[2], pg[2], st["pr"])) if a_ != b_)
        if weak:
            ctx.count("pattern_named_differently_for_a_wave_of_negligible_strength")
        ctx.observe("route.riemann", "IGEOS_Solver~GenEOS_Solver", weak, branch="pattern " + pat, detail=dict(igeos=pat, geneos=pg, st=st, star_pressure=ps))
    else:
        ctx.observe("route.riemann", "IGEOS_Solver~GenEOS_Solver", True, branch="pattern " + pat, detail=dict(igeos=pat, geneos=pg, st=st))
    cs = math.sqrt(st["gl"] * st["pl"] / st["rl"]) + math.sqrt(st["gr"] * st["pr"] / st["rr"])
    du = "du=0" if st["ul"] == st["ur"] else "du!=0"
    # "Agreement is to the accuracy of the less accurate route": the general-EOS route interpolates linearly in tables of
    # num_int_pts pressures (spacing p0/1e4 below and 10 max(pl,pr)/1e4 above each initial pressure), which is coarse for
    # strong rarefactions and very unequal pressures.  Its accuracy is *measured*, not modelled: where the routes differ
    # by more than the base tolerance the general route is run again with twice the table resolution (public parameter
    # num_int_pts) and its own change (second order: 3/4 of its error; x3 allowed) is what the ideal-gas route may differ by.
    base_v, base_f = 2e-5, 5e-5
    Vg = np.asarray(sg.Vregs, float)
    same = len(Vg) == len(V)
    # the speed of a shock of negligible strength is a quotient of two small differences in the general route
    # (ill-conditioned: error ~ table accuracy / relative strength): such a wave's speed is left out of the comparison
    keep = np.ones(len(V), dtype=bool)
    if same:
        ic_ = 1 if pat[0] == "S" else 2
        xs_ = xd0 + t * V[ic_]
        ps_ = float(ctx.call(si, np.array([xs_ - 1e-9 * max(abs(xs_), span)]), t)["pressure"][0])
        if pat[0] == "S" and abs(ps_ / st["pl"] - 1.0) < 1e-3:
            keep[0] = False
        if pat[2] == "S" and abs(ps_ / st["pr"] - 1.0) < 1e-3:
            keep[-1] = False
        if not keep.all():
            ctx.count("speed_of_a_shock_of_negligible_strength_not_compared")
    dv = float(np.max(np.abs(Vg - V)[keep])) / cs if same else None
    fd = {}
    for f in F4:
        sc = cs if f == "velocity" else max(float(np.nanmax(np.abs(A[f]))), float(np.nanmax(np.abs(B[f]))), 1e-300)
        fd[f] = np.abs(np.asarray(A[f], float) - np.asarray(B[f], float)) / sc
    worst_f = max(fd, key=lambda f: float(np.nanmax(fd[f])))
    df = float(np.nanmax(fd[worst_f]))
    allow_v = allow_f = 0.0
    refined = False
    if (same and dv > base_v) or df > base_f or any(np.isnan(fd[f]).any() for f in F4):
        refined = True
        ctx.count("geneos_self_convergence_runs")
        sg2 = RC.make_solver(ctx, "GenEOS", st, xd0, a, b, extra=dict(num_int_pts=20001))
        B2 = ctx.call(sg2, x, t)
        Vg2 = np.asarray(sg2.Vregs, float)
        if same and len(Vg2) == len(Vg):
            allow_v = 3.0 * float(np.max(np.abs(Vg2 - Vg)[keep])) / cs
        worst_excess = -1.0
        for f in F4:
            sc = cs if f == "velocity" else max(float(np.nanmax(np.abs(A[f]))), float(np.nanmax(np.abs(B[f]))), 1e-300)
            al = 3.0 * np.abs(np.asarray(B2[f], float) - np.asarray(B[f], float)) / sc
            ex = fd[f] - al
            ex = np.where(np.isnan(ex), np.inf, ex)
            if float(np.max(ex)) > worst_excess:
                worst_excess, worst_f = float(np.max(ex)), f
                k = int(np.argmax(ex))
                df, allow_f = float(fd[f][k]) if not np.isnan(fd[f][k]) else float("inf"), float(al[k])
    if same:
        ctx.observe("route.riemann", "IGEOS_Solver~GenEOS_Solver", dv <= base_v + allow_v, branch="wave speeds %s %s" % (pat, du), measure=dv,
                    tol=base_v + allow_v, detail=dict(igeos=V.tolist(), geneos=Vg.tolist(), st=st, refined=refined, geneos_self_change_x2=allow_v))
    nontriv = any(np.any(np.asarray(A[f]) != 0) for f in F4)
    ctx.observe("route.riemann", "IGEOS_Solver~GenEOS_Solver", df <= base_f + allow_f, branch="fields %s %s" % (pat, du), measure=df, tol=base_f + allow_f,
                nontrivial=nontriv, detail=dict(st=st, xd0=xd0, t=t, worst_field=worst_f, refined=refined, geneos_self_change_x2=allow_f))


# ---- Noh / Cog19 / black-box Noh ---------------------------------------------------------------------------------
def gen_noh(rng, i, tier):
    return dict(geom=1 + i % 3, gamma=uni(rng, 1.05, 3.0), u0=-logu(rng, 0.1, 10), rho0=logu(rng, 0.1, 10),
                Gamma=logu(rng, 1, 100), t=logu(rng, 0.05, 5), fr=[uni(rng, 0.02, 0.98) for _ in range(10)])


def run_noh(ctx, p):
    from exactpack.solvers.noh.noh1 import Noh
    from exactpack.solvers.cog.cog19 import Cog19
    from exactpack.solvers.nohblackboxeos.blackboxnoh import NohBlackBoxEos
    g, u0, r0, geom, t = p["gamma"], p["u0"], p["rho0"], p["geom"], p["t"]
    rs = abs(u0) * t * (g - 1) / 2
    r = np.array(sorted([rs * f for f in p["fr"]] + [rs * (1 + 4 * f) for f in p["fr"]]))
    a = ctx.make(Noh, geometry=geom, gamma=g, u0=u0, rho0=r0)
    b = ctx.make(Cog19, geometry=geom, gamma=g, u0=u0, rho0=r0, Gamma=p["Gamma"])
    A, B = ctx.call(a, r, t), ctx.call(b, r, t)
    br = "g=%d" % geom
    cmp(ctx, "route.noh", "Noh~Cog19", br, A, B, F4, 1e-12, detail=dict(p))
    # temperature route: e = Gamma T/(gamma-1)
    eT = p["Gamma"] * np.asarray(B["temperature"], dtype=float) / (g - 1)
    cmp(ctx, "route.noh", "Noh~Cog19", br + " e=Gamma T/(gamma-1)", A, dict(specific_internal_energy=eT),
        ("specific_internal_energy",), 1e-12, detail=dict(p))
    eos = make_eos("ideal", dict(gamma=g))
    ic = dict(density=r0, velocity=u0, pressure=0.0, symmetry=geom - 1)
    c = ctx.make(NohBlackBoxEos, eos, ic, geometry=geom)
    # physically reasonable guess: 10 % off the strong-shock values
    rl = r0 * ((g + 1) / (g - 1)) ** geom
    c.set_new_solver_initial_guess([1.1 * rl, 0.9 * 0.5 * u0 * u0, 1.1 * abs(u0) * (g - 1) / 2])
    c.set_new_solver_tolerance(min(1e-2, 1e-12 * max(1.0, rl, u0 * u0)))
    Cc = ctx.call(c, r, t)
    cmp(ctx, "route.noh", "Noh~NohBlackBoxEos", br, A, Cc, F4, 1e-8, detail=dict(p))
    # the documented way to improve on a result: another starting point (here 15 % off on the other side), solve again
    try:
        c.set_new_solver_initial_guess([0.87 * rl, 1.12 * 0.5 * u0 * u0, 0.88 * abs(u0) * (g - 1) / 2])
        ctx.quiet(c.solve_jump_conditions)
        C2 = ctx.call(c, r, t)
        cmp(ctx, "route.noh", "Noh~NohBlackBoxEos", br + " solved a second time from another starting point", A, C2, F4, 1e-8, detail=dict(p))
    except SolverRaised:
        ctx.count("bbnoh_second_solve_raised")
    except Exception as ex:  # noqa: BLE001 - the library's own exception types (IterationError ...)
        ctx.count("bbnoh_second_solve_raised:" + type(ex).__name__)


# ---- Noh2 / Noh2Cog / Cog1 ----------------------------------------------------------------------------------------
def gen_noh2(rng, i, tier):
    return dict(geom=1 + i % 3, gamma=uni(rng, 1.05, 3.0), rho0=logu(rng, 0.1, 10), e0=logu(rng, 0.1, 10),
                Gamma=logu(rng, 1, 100), t=uni(rng, 0.02, 0.97), r=[logu(rng, 0.05, 5) for _ in range(8)])


def run_noh2(ctx, p):
    from exactpack.solvers.noh2.noh2 import Noh2
    from exactpack.solvers.noh2.noh2_cog import Noh2Cog
    from exactpack.solvers.cog.cog1 import Cog1
    g, geom, t = p["gamma"], p["geom"], p["t"]
    r = np.array(sorted(p["r"]))
    a = ctx.make(Noh2, geometry=geom, gamma=g, rho0=p["rho0"], e0=p["e0"])
    b = ctx.make(Noh2Cog, geometry=geom, gamma=g, rho0=p["rho0"], e0=p["e0"])
    c = ctx.make(Cog1, geometry=geom, gamma=g, rho0=p["rho0"], temp0=p["e0"] * (g - 1) / p["Gamma"], b=0.0, Gamma=p["Gamma"])
    A, B, Cc = ctx.call(a, r, t), ctx.call(b, r, t), ctx.call(c, r, 1.0 - t)
    br = "g=%d" % geom
    cmp(ctx, "route.noh2", "Noh2~Noh2Cog", br, A, B, F4, 1e-12, detail=dict(p))
    Cm = {f: np.asarray(Cc[f], dtype=float) for f in F4}
    Cm["velocity"] = -Cm["velocity"]
    cmp(ctx, "route.noh2", "Noh2~Cog1(b=0,1-t)", br, A, Cm, F4, 1e-12, detail=dict(p))


# ---- wrappers vs general class ------------------------------------------------------------------------------------
_wr = {}


def wrappers():
    if not _wr:
        for q, cls in sorted(C.discover().items()):
            ent, isw = C.general_entry_for(q, cls)
            if ent and isw and C.CAT[ent]["geoms"]:
                _wr[q] = (cls, ent)
    return _wr


def gen_wr(rng, i, tier):
    return dict(slot=i, seed=int(rng.integers(2 ** 31)))


def run_wr(ctx, p):
    wr = wrappers()
    keys = sorted(wr)
    q = keys[p["slot"] % len(keys)]
    W, ent = wr[q]
    e = C.CAT[ent]
    G = C.load(e["path"])
    if e["cost"] >= 1 and (p["slot"] // len(keys)) % 3 != 0:
        raise Skip("costly_class_thinned")
    rng = np.random.default_rng(p["seed"])
    d = C.draw(ctx, W, ent, rng, n=8)
    if d is None:
        raise Skip("no_admissible_draw")
    w, pts, t = d["solver"], d["points"], d["t"]
    geom = getattr(W, "geometry")
    if e["build"] is not None:
        g = ctx.quiet(e["build"], G, d["passed"])
        # same initial guess as the wrapper's instance
        g.set_new_solver_initial_guess(list(w.initial_guess))
    else:
        kw = dict(d["passed"])
        for k in G.parameters:
            if k == "geometry":
                kw["geometry"] = geom
            elif k not in kw:
                kw[k] = getattr(w, k)          # what the wrapper fixes (class attribute), e.g. Sedov eblast, Kidder b
        g = ctx.make(G, **kw)
    # the same request to both, in the order drawn (ascending), from the outside inwards, or shuffled
    how = "descending" if e["cost"] >= 1 else ["as drawn", "descending", "shuffled"][p["seed"] % 3]      # costly classes are run once
    arr = np.asarray(pts, float)
    if how != "as drawn" and e["layout"] != "comp2" and len(arr) >= 2:
        idx = np.arange(len(arr))[::-1] if how == "descending" else rng.permutation(len(arr))
        pts = arr[idx]
    A, B = ctx.call(w, pts, t), ctx.call(g, pts, t)
    names = [n for n in A.dtype.names if n in B.dtype.names and A[n].dtype.kind == "f"]
    ctx.observe("route.wrapper", W.__name__ + "~" + G.__name__, A.dtype.names == B.dtype.names, branch="same fields",
                detail=dict(wrapper=list(A.dtype.names), general=list(B.dtype.names)))
    cmp(ctx, "route.wrapper", W.__name__ + "~" + G.__name__, "g=%d" % geom, A, B, names, 1e-12,
        detail=dict(params={k: v for k, v in d["passed"].items() if isinstance(v, (int, float, str))}, t=t))


# ---- black-box Noh: the documented `geometry` keyword vs the geometry-specific classes ------------------------------
def gen_bbg(rng, i, tier):
    return dict(geom=1 + i % 3, gamma=uni(rng, 1.2, 2.5), t=logu(rng, 0.2, 2), fr=[uni(rng, 0.05, 0.95) for _ in range(6)])


def run_bbg(ctx, p):
    from exactpack.solvers.nohblackboxeos import blackboxnoh as B
    geom, g, t = p["geom"], p["gamma"], p["t"]
    W = [B.PlanarNohBlackBox, B.CylindricalNohBlackBox, B.SphericalNohBlackBox][geom - 1]
    w = ctx.make(W, make_eos("ideal", dict(gamma=g)))                      # default initial conditions
    gcls = ctx.make(B.NohBlackBoxEos, make_eos("ideal", dict(gamma=g)), geometry=geom)   # same defaults, geometry by keyword
    rs = t * (g - 1) / 2
    r = np.array(sorted([rs * f for f in p["fr"]] + [rs * (1 + 3 * f) for f in p["fr"]]))
    A, Bb = ctx.call(w, r, t), ctx.call(gcls, r, t)
    cmp(ctx, "route.wrapper", W.__name__ + "~NohBlackBoxEos(geometry=k)", "g=%d geometry keyword only" % geom, A, Bb, F4, 1e-8,
        detail=dict(geometry=geom, gamma=g, t=t))


# ---- sandwiches vs rod ------------------------------------------------------------------------------------------------
def gen_sw(rng, i, tier):
    which = ["PlanarSandwich", "PlanarSandwichHot", "PlanarSandwichHalf"][i % 3]
    kw = C.CAT[which]["gen"](rng, None)
    kw["Nsum"] = int(choice(rng, [50, 200, 1000]))
    return dict(which=which, kw=kw, x=[uni(rng, 0, 1) for _ in range(9)], tf=logu(rng, 1e-3, 1.0))


def run_sw(ctx, p):
    from exactpack.solvers.heat.rod1d import Rod1D
    W = C.load(C.CAT[p["which"]]["path"])
    kw = p["kw"]
    w = ctx.make(W, **kw)
    L = kw["L"]
    # documented mapping: PlanarSandwich (TB,TT) fixed temperatures; Hot (F,F) fixed fluxes; Half (TB, FT)
    if p["which"] == "PlanarSandwich":
        bc = dict(alpha1=1.0, beta1=0.0, gamma1=kw["TB"], alpha2=1.0, beta2=0.0, gamma2=kw["TT"])
    elif p["which"] == "PlanarSandwichHot":
        bc = dict(alpha1=0.0, beta1=1.0, gamma1=kw["F"], alpha2=0.0, beta2=1.0, gamma2=kw["F"])
    else:
        bc = dict(alpha1=1.0, beta1=0.0, gamma1=kw["TB"], alpha2=0.0, beta2=1.0, gamma2=kw["FT"])
    r = ctx.make(Rod1D, Nsum=kw["Nsum"], kappa=kw["kappa"], TL=kw["TL"], TR=kw["TR"], L=L, **bc)
    x = np.array(sorted(p["x"])) * L
    t = p["tf"] * L * L / kw["kappa"]
    A, B = ctx.call(w, x, t), ctx.call(r, x, t)
    cmp(ctx, "route.sandwich", p["which"] + "~Rod1D", "", A, B, ("temperature",), 1e-12, detail=dict(kw=kw, t=t))


def gen_rod(rng, i, tier):
    L = logu(rng, 0.5, 5)
    return dict(L=L, kappa=logu(rng, 0.1, 10), TL=uni(rng, 0, 5), TR=uni(rng, 0, 5), T1=uni(rng, -2, 3), F2=uni(rng, -2, 2),
                Nsum=int(choice(rng, [50, 200, 1000])), x=[uni(rng, 0, 1) for _ in range(9)], tf=logu(rng, 1e-3, 1.0),
                # the same boundary conditions written with non-unit coefficients (k dT/dx = k q, outward normal, ...)
                k=[1.0, 1.0, 1.0, 1.0] if i % 3 == 0 else [sgn(rng) * logu(rng, 0.3, 3) for _ in range(4)])


def run_rod(ctx, p):
    from exactpack.solvers.heat.rod1d import Rod1D
    L = p["L"]
    k = p.get("k", [1.0, 1.0, 1.0, 1.0])
    a = ctx.make(Rod1D, Nsum=p["Nsum"], kappa=p["kappa"], TL=p["TL"], TR=p["TR"], L=L,
                 alpha1=k[0], beta1=0.0, gamma1=k[0] * p["T1"], alpha2=0.0, beta2=k[1], gamma2=k[1] * p["F2"])
    b = ctx.make(Rod1D, Nsum=p["Nsum"], kappa=p["kappa"], TL=p["TR"], TR=p["TL"], L=L,
                 alpha1=0.0, beta1=k[2], gamma1=-k[2] * p["F2"], alpha2=k[3], beta2=0.0, gamma2=k[3] * p["T1"])
    x = np.array(sorted(p["x"])) * L
    t = p["tf"] * L * L / p["kappa"]
    A = ctx.call(a, x, t)
    B = ctx.call(b, (L - x)[::-1], t)
    Bm = dict(temperature=np.asarray(B["temperature"])[::-1])
    cmp(ctx, "route.rod", "Rod1D BC3~mirrored BC4", "", A, Bm, ("temperature",), 1e-9, detail=dict(p))


# ---- Kenamond 2-D vs 3-D ------------------------------------------------------------------------------------------
def gen_ken(rng, i, tier):
    from .c13 import gen_k2
    which = 1 + i % 3
    base = dict(which=which, pseed=int(rng.integers(2 ** 31)))
    if which == 1:
        base.update(D=logu(rng, 0.1, 10), x_d=[uni(rng, -5, 5), uni(rng, -5, 5)], t_d=uni(rng, -2, 2))
    elif which == 2:
        base.update(k2=gen_k2(rng, 0, tier))
    else:
        R = logu(rng, 0.1, 10)
        ang = uni(rng, 0, 2 * math.pi)
        lod = R * uni(rng, 1.05, 8)
        base.update(R=R, D=logu(rng, 0.1, 10), x_d=[lod * math.cos(ang), lod * math.sin(ang)], t_d=uni(rng, -2, 2))
    return base


def run_ken(ctx, p):
    from exactpack.solvers.kenamond import Kenamond1, Kenamond2, Kenamond3
    rng = np.random.default_rng(p["pseed"])
    w = p["which"]
    phi = float(rng.choice([0.0, math.pi / 2, rng.uniform(0, 2 * math.pi), rng.uniform(0, 2 * math.pi)]))
    if w == 1:
        a = ctx.make(Kenamond1, geometry=2, D=p["D"], x_d=tuple(p["x_d"]), t_d=p["t_d"])
        b = ctx.make(Kenamond1, geometry=3, D=p["D"], x_d=(p["x_d"][0] * math.cos(phi), p["x_d"][0] * math.sin(phi), p["x_d"][1]), t_d=p["t_d"])
        P2 = rng.uniform(-10, 10, size=(40, 2))
    elif w == 2:
        k = p["k2"]
        t_d = [t + (4e-16 * (abs(t) + k["R"] / k["D2"]) if j != 2 else 0.0) for j, t in enumerate(k["t_d"])]
        kw = dict(R=k["R"], D1=k["D1"], D2=k["D2"], dets=list(k["dets"]), t_d=t_d)
        a = ctx.make(Kenamond2, geometry=2, **kw)
        b = ctx.make(Kenamond2, geometry=3, **kw)
        P2 = rng.uniform(-k["box"], k["box"], size=(40, 2))
    else:
        a = ctx.make(Kenamond3, geometry=2, R=p["R"], D=p["D"], x_d=tuple(p["x_d"]), t_d=p["t_d"])
        b = ctx.make(Kenamond3, geometry=3, R=p["R"], D=p["D"], x_d=(p["x_d"][0] * math.cos(phi), p["x_d"][0] * math.sin(phi), p["x_d"][1]), t_d=p["t_d"])
        lod = math.hypot(*p["x_d"])
        P2 = []
        while len(P2) < 40:
            q = rng.uniform(-2.5 * lod, 2.5 * lod, size=2)
            if np.linalg.norm(q) > 1.001 * p["R"]:
                P2.append(q)
        P2 = np.array(P2)
    # the common plane: any plane through the last axis (azimuth phi; the 2-D abscissa is the distance from the axis in it)
    P3 = np.column_stack([P2[:, 0] * math.cos(phi), P2[:, 0] * math.sin(phi), P2[:, 1]])
    A, B = ctx.call(a, P2, 0.0), ctx.call(b, P3, 0.0)
    slack = 1e-7 * p["R"] / p["D"] if w == 3 else 0.0
    ta, tb = np.asarray(A["burntime"], float), np.asarray(B["burntime"], float)
    sc = max(float(np.max(np.abs(ta))), 1e-300)
    d = float(np.max(np.abs(ta - tb)))
    ctx.observe("route.burn", "Kenamond%d 2D~3D" % w, d <= 1e-12 * sc + slack, measure=d / sc, tol=1e-12,
                nontrivial=float(np.ptp(ta)) > 0, detail=dict({k: v for k, v in p.items() if k != "k2"}, azimuth=phi))


def reach(tot, tier):
    out = []
    have = set(k.split("|")[1] for k in tot["stats"])
    n_wr = len([h for h in have if "~" in h and h.split("~")[0] not in ("IGEOS_Solver", "Noh", "Noh2", "Rod1D BC3") and not h.startswith("Kenamond") and not h.startswith("PlanarSandwich")])
    if n_wr < 60:
        out.append("only %d wrapper classes compared with their general class" % n_wr)
    return out


UNITS = [
    Unit("riemann", gen_rm, run_rm, quick=24, thorough=400, min_nontrivial=20),
    Unit("noh", gen_noh, run_noh, quick=150, thorough=3000, min_nontrivial=300),
    Unit("noh2", gen_noh2, run_noh2, quick=150, thorough=3000, min_nontrivial=200),
    Unit("wrapper", gen_wr, run_wr, quick=3 * 66, thorough=30 * 66, min_nontrivial=150),
    Unit("bbnoh.geometry", gen_bbg, run_bbg, quick=12, thorough=120, min_nontrivial=6),
    Unit("sandwich", gen_sw, run_sw, quick=90, thorough=1800, min_nontrivial=80),
    Unit("rod", gen_rod, run_rod, quick=90, thorough=1800, min_nontrivial=80),
    Unit("kenamond", gen_ken, run_ken, quick=120, thorough=2400, min_nontrivial=100),
]

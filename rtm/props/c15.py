"""C15 - Blake: fields solve the elastic wave problem; six moduli describe one material.

Monitors
  moduli.pair      for each of the 15 parameter pairs of a random material: constructor either
                   raises ValueError, or the six attributes reproduce the two supplied values,
                   satisfy K=l+2G/3, M=l+2G, E=G(3l+2G)/(l+G), nu=l/(2(l+G)) and are positive
                   definite (G>0, 3l+2G>0).  Any other exception type is a violation.
  wave.pde         u_tt = c_l^2 (u_rr + 2u_r/r - 2u/r^2), c_l^2 = M/rho_ref, by differences of the
                   returned displacement (9-point stencils in r and t, with error bars).
  wave.front       displacement and strains vanish for r > a + c_l t.
  wave.cavity      stress_rr(a, t) = -pressure_scale for t > 0.
  fields.kinematic strain_rr = d(displacement)/dr, strain_qq = u/r, strain_vol, curr_posn.
  fields.hooke     stresses, pressure, deviators, stress_diff, density from the returned strains.
"""
import math

import numpy as np

from ..core import Unit, Skip, SolverRaised, logu, uni, choice
from ..oracles import derivs9, OFF9, residual

RULE = ("random positive-definite isotropic materials (nu in (-0.95,0.49), plus boundary and "
        "non-positive-definite draws) expressed through each of the 15 parameter pairs; random "
        "cavity radius, density, pressure scale <= 0.05 K, times with the front 0.3-8 cavity radii "
        "out, radii across the disturbed and undisturbed region.  distinct = (monitor, prmcase or "
        "field, case); non-trivial = the compared quantities are non-zero.")
ASSUME = ["finite differences of the returned displacement (4th order, Richardson error bar) are the "
          "reference for derivatives", "isotropic linear elasticity identities as stated in the property"]

NAMES = ["lame_mod", "shear_mod", "youngs_mod", "poisson_ratio", "bulk_mod", "long_mod"]
PAIRS = [(i, j) for i in range(6) for j in range(i + 1, 6)]


def material(G, nu):
    lam = 2 * G * nu / (1 - 2 * nu)
    E = 2 * G * (1 + nu)
    K = lam + 2 * G / 3
    M = lam + 2 * G
    return dict(lame_mod=lam, shear_mod=G, youngs_mod=E, poisson_ratio=nu, bulk_mod=K, long_mod=M)


def gen_moduli(rng, i, tier):
    pair = PAIRS[i % 15]
    kind = choice(rng, ["pd", "pd", "pd", "pd", "boundary", "non_pd", "hostile"])
    G = logu(rng, 1e-3, 1e12)
    if kind == "hostile":
        # two values chosen independently of any material: equal moduli, the documented
        # singular ratios (E=3G, E=9K, lambda=3K, M=G, M=4G/3 ...), nu = 0 and nu near the ends
        a, b = NAMES[pair[0]], NAMES[pair[1]]
        v1 = G
        v2 = v1 * choice(rng, [1.0, 3.0, 9.0, 1 / 3.0, 1 / 9.0, 4 / 3.0, 0.75, 2.0, 0.5,
                               1 + 1e-14, 3 * (1 - 1e-14), logu(rng, 1e-3, 1e3)])
        nus = [0.0, 1e-12, -1e-12, 0.25, -0.5, 0.49999999, -0.99999999, uni(rng, -0.99, 0.49)]
        given = {a: v1, b: v2}
        for k in (a, b):
            if k == "poisson_ratio":
                given[k] = choice(rng, nus)
        return dict(kind=kind, prmcase=i % 15, given=given, truth=None)
    if kind == "pd":
        nu = uni(rng, -0.95, 0.49)
    elif kind == "boundary":
        nu = choice(rng, [0.0, 0.5, -1.0, 0.25, 1e-14, -1e-14, 0.4999999999, 1.0 / 3.0])
    else:
        nu = choice(rng, [uni(rng, 0.5, 0.99), uni(rng, 1.01, 3.0), uni(rng, -3.0, -1.0)])
        if rng.random() < 0.3:
            G = -G
    if nu in (0.5, 1.0):
        m = dict(shear_mod=G, poisson_ratio=nu, youngs_mod=2 * G * (1 + nu),
                 lame_mod=float("inf"), bulk_mod=float("inf"), long_mod=float("inf"))
    else:
        m = material(G, nu)
    a, b = NAMES[pair[0]], NAMES[pair[1]]
    if not (math.isfinite(m[a]) and math.isfinite(m[b])):
        return None
    return dict(kind=kind, prmcase=i % 15, given={a: m[a], b: m[b]}, truth=dict(G=G, nu=nu))


def check_six(ctx, s, given, prmcase, kind):
    lam, G, E, nu, K, M = (float(getattr(s, n)) for n in NAMES)
    six = dict(zip(NAMES, (lam, G, E, nu, K, M)))
    br = "prmcase=%d" % prmcase
    det = dict(six=six, given=given, kind=kind)
    if not all(math.isfinite(v) for v in six.values()):
        ctx.observe("moduli.pair", "Blake", False, branch=br + " finite", detail=det)
        return
    for k, v in given.items():
        sc = max(abs(v), abs(six[k]))
        ctx.observe("moduli.pair", "Blake", abs(six[k] - v) <= 1e-12 * sc, branch=br + " reproduces " + k,
                    measure=abs(six[k] - v) / (sc or 1), tol=1e-12, detail=det, nontrivial=sc > 0)
    ident = {
        "K=l+2G/3": [K, -lam, -2 * G / 3],
        "M=l+2G": [M, -lam, -2 * G],
        "E(l+G)=G(3l+2G)": [E * lam, E * G, -3 * G * lam, -2 * G * G],
        "2nu(l+G)=l": [2 * nu * lam, 2 * nu * G, -lam],
    }
    big = max(abs(lam), abs(G), abs(E), abs(K), abs(M))
    for k, tt in ident.items():
        sc = sum(abs(x) for x in tt)
        r = abs(sum(tt)) / sc if sc > 0 else 0.0
        # the moduli are floating-point numbers: differences of moduli carry a rounding error of
        # order eps * (largest modulus), which dominates for nu -> 0 or nu -> 1/2
        floor = 1e-12 * (big ** 2 if k.startswith("E") else big)
        ctx.observe("moduli.pair", "Blake", abs(sum(tt)) <= 1e-9 * sc + floor, branch=br + " " + k,
                    measure=r, tol=1e-9, detail=det, nontrivial=sc > 0)
    ctx.observe("moduli.pair", "Blake", (G > 0) and (3 * lam + 2 * G > -1e-12 * big) and K > -1e-12 * big,
                branch=br + " positive-definite",
                detail=det)


def run_moduli(ctx, p):
    from exactpack.solvers.blake import Blake
    try:
        s = ctx.make(Blake, **p["given"])
    except SolverRaised as e:
        ok = isinstance(e.exc, ValueError)
        ctx.observe("moduli.pair", "Blake", ok, branch="prmcase=%d rejects-with-ValueError" % p["prmcase"],
                    detail=dict(given=p["given"], kind=p["kind"], raised=type(e.exc).__name__,
                                message=str(e.exc)[:200]))
        return
    check_six(ctx, s, p["given"], p["prmcase"], p["kind"])


# ---- fields --------------------------------------------------------------------------------
def gen_fields(rng, i, tier):
    G = logu(rng, 1e8, 1e11)
    nu = uni(rng, -0.9, 0.48)
    m = material(G, nu)
    pair = PAIRS[int(rng.integers(15))]
    a, b = NAMES[pair[0]], NAMES[pair[1]]
    if (m[a] <= 0 and a != "poisson_ratio") or (m[b] <= 0 and b != "poisson_ratio"):
        a, b = "shear_mod", "poisson_ratio"
    if (a, b) == ("youngs_mod", "long_mod") and nu < 0:
        a, b = "shear_mod", "bulk_mod"        # E/M is two-valued; solver picks nu >= 0
    rho = logu(rng, 500, 2e4)
    cav = logu(rng, 0.01, 10)
    ps = logu(rng, 1e-5, 5e-2) * m["bulk_mod"]
    cl = math.sqrt(m["long_mod"] / rho)
    t = logu(rng, 0.3, 8.0) * cav / cl
    fr = [uni(rng, 0.02, 0.93) for _ in range(4)]
    return dict(given={a: m[a], b: m[b]}, truth=m, ref_density=rho, cavity_radius=cav,
                pressure_scale=ps, t=t, fracs=fr)


def run_fields(ctx, p):
    from exactpack.solvers.blake import Blake
    m = p["truth"]
    s = ctx.make(Blake, ref_density=p["ref_density"], cavity_radius=p["cavity_radius"],
                 pressure_scale=p["pressure_scale"], **p["given"])
    # two cases out of three: other Blake solvers (another material, the defaults) are constructed between the construction
    # and the evaluation of the solver under test - its fields must still be those of *its* six constants
    k = int(round(p["ref_density"] * 1e6)) % 3
    if k >= 1:
        ctx.make(Blake, shear_mod=m["shear_mod"] * 2.3, bulk_mod=m["bulk_mod"] * 0.7 + m["shear_mod"], ref_density=p["ref_density"] * 1.7,
                 cavity_radius=p["cavity_radius"] * 0.6, pressure_scale=p["pressure_scale"] * 3.0)
    if k == 2:
        ctx.make(Blake)
    a, rho, ps, t = p["cavity_radius"], p["ref_density"], p["pressure_scale"], p["t"]
    cl = math.sqrt(m["long_mod"] / rho)
    front = a + cl * t
    lam, G = float(s.lame_mod), float(s.shear_mod)
    # -- cavity wall and front ----------------------------------------------------------------
    # ahead of the front: just ahead, and far out in units of the cavity radius (a far-field mesh around a small cavity)
    pts = np.array([a, a * (1 + 1e-9), front * (1 + 1e-6), front * 1.5, front * 10, max(front * 2, 3e3 * a), max(front * 3, 3e4 * a), max(front * 4, 1e6 * a)])
    sol = ctx.call(s, pts, t)
    r = abs(sol["stress_rr"][0] + ps) / ps
    ctx.observe("wave.cavity", "Blake", r <= 1e-9, measure=r, tol=1e-9,
                detail=dict(stress_rr=float(sol["stress_rr"][0]), pressure_scale=ps))
    ahead = max(float(np.max(np.abs(sol[f][2:]))) for f in
                ("displacement", "strain_rr", "strain_qq", "stress_rr", "stress_qq", "pressure"))
    ctx.observe("wave.front", "Blake", ahead == 0.0 and np.all(sol["density"][2:] == rho),
                measure=ahead, detail=dict(front=front, points=pts[2:].tolist()))
    # -- the same object on a second grid with as many points as the first (a graded grid, a shifted stencil): the fields are
    #    those of a solver that has never seen the first grid
    pts_b = a + (pts - a) * 0.83 + 1e-3 * a
    sol_b = ctx.call(s, pts_b, t)
    s_new = ctx.make(Blake, ref_density=p["ref_density"], cavity_radius=p["cavity_radius"], pressure_scale=p["pressure_scale"], **p["given"])
    sol_n = ctx.call(s_new, pts_b, t)
    same = all(np.array_equal(np.asarray(sol_b[f], float), np.asarray(sol_n[f], float), equal_nan=True) for f in sol_b.dtype.names)
    ctx.observe("fields.kinematic", "Blake", same, branch="second grid of the same length on a used solver = on a fresh one",
                detail=dict(t=t, grid=pts_b.tolist()[:4]))
    # -- interior probes ----------------------------------------------------------------------
    for f in p["fracs"]:
        r0 = a + f * (front - a)
        hr = min(2e-3 * r0, 0.2 * (front - r0), 0.2 * (r0 - a) if r0 > a else 1e300)
        hr = max(hr, 1e-5 * r0)
        if r0 - 2 * hr < a or r0 + 2 * hr > front - (front - a) * 1e-3:
            ctx.count("probe_too_close_to_boundary")
            continue
        ht = min(2e-3 * t, 0.2 * (front - r0) / cl)
        rr = r0 + OFF9 * hr / 2
        S = ctx.call(s, rr, t)
        u, ur, eur, urr, eurr = derivs9(np.array(S["displacement"], dtype=float), hr)
        ut9 = np.array([float(ctx.call(s, np.array([r0]), t + k * ht / 2)["displacement"][0]) for k in OFF9])
        _, _, _, utt, eutt = derivs9(ut9, ht)
        c2 = cl * cl
        terms = [utt, -c2 * urr, -c2 * 2 * ur / r0, c2 * 2 * u / r0 ** 2]
        errs = [eutt, c2 * eurr, c2 * 2 * eur / r0]
        ok, rho_res, scale = residual(terms, errs, tol=1e-6)
        ctx.observe("wave.pde", "Blake", ok, measure=rho_res, tol=1e-6,
                    detail=dict(r=r0, t=t, terms=terms, front=front), nontrivial=scale > 0)
        mid = S[4]
        # kinematics
        e_rr, e_qq, e_v = float(mid["strain_rr"]), float(mid["strain_qq"]), float(mid["strain_vol"])
        sc = max(abs(e_rr), abs(ur), abs(u / r0))
        ctx.observe("fields.kinematic", "Blake", abs(e_rr - ur) <= 1e-7 * sc + 10 * eur,
                    branch="strain_rr=du/dr", measure=abs(e_rr - ur) / sc, tol=1e-7,
                    detail=dict(strain_rr=e_rr, du_dr=float(ur), r=r0, t=t))
        kin = {"strain_qq=u/r": (e_qq, u / r0), "strain_vol": (e_v, e_rr + 2 * e_qq),
               "curr_posn": (float(mid["curr_posn"]) - r0, float(u))}
        for k, (got, want) in kin.items():
            scl = max(abs(got), abs(want), 1e-300)
            ctx.observe("fields.kinematic", "Blake", abs(got - want) <= 1e-11 * max(scl, sc if "vol" in k else scl)
                        + (4e-16 * r0 if k == "curr_posn" else 0.0),
                        branch=k, measure=abs(got - want) / scl, tol=1e-11, detail=dict(got=got, want=float(want)))
        # Hooke's law with the solver's own lambda and G (tied to the supplied pair by moduli.pair)
        srr = (lam + 2 * G) * e_rr + 2 * lam * e_qq
        sqq = lam * e_rr + 2 * (lam + G) * e_qq
        pr = -(srr + 2 * sqq) / 3
        want = {"stress_rr": srr, "stress_qq": sqq, "pressure": pr, "stress_dev_rr": srr + pr,
                "stress_dev_qq": sqq + pr, "stress_diff": abs(srr - sqq)}
        big = (abs(lam) + 2 * abs(G)) * (abs(e_rr) + 2 * abs(e_qq))
        for k, w in want.items():
            got = float(mid[k])
            ctx.observe("fields.hooke", "Blake", abs(got - w) <= 1e-11 * big, branch=k,
                        measure=abs(got - w) / big, tol=1e-11, detail=dict(got=got, want=w))
        dens = float(mid["density"])
        wd = rho / (1 + e_v)
        ctx.observe("fields.hooke", "Blake", abs(dens - wd) <= 1e-13 * rho, branch="density",
                    measure=abs(dens - wd) / rho, tol=1e-13, detail=dict(got=dens, want=wd))
        # the solver's moduli are those of the material the user described
        for k in NAMES:
            sc6 = max(abs(m[k]), abs(float(getattr(s, k))))
            big6 = max(abs(m["long_mod"]), abs(m["bulk_mod"]))
            ctx.observe("moduli.pair", "Blake", abs(m[k] - float(getattr(s, k))) <= 1e-9 * (big6 if k != "poisson_ratio" else 1.0),
                        branch="attribute " + k + " vs material", measure=abs(m[k] - float(getattr(s, k))) / (sc6 or 1),
                        tol=1e-9, detail=dict(given=p["given"], want=m[k], got=float(getattr(s, k))))


UNITS = [
    Unit("moduli", gen_moduli, run_moduli, quick=3000, thorough=60000, min_nontrivial=500),
    Unit("fields", gen_fields, run_fields, quick=400, thorough=8000, min_nontrivial=500),
]

"""C20 - invalid problems are rejected loudly; no finite garbage outside validity; no NaN inside.

  restr.ctor     enumerable catalogue of documented restrictions (class, parameter, source sentence, violating and
                 boundary values): every entry is executed; the constructor must raise ValueError
  restr.domain   requests outside the documented time/space domain must raise or return non-finite values in
                 every dependent field (never finite numbers that look like a solution)
  finite         online (icontract postcondition on ExactSolver.__call__): every in-domain call of the catalogue
                 workload returns only finite dependent fields (documented vacuum excepted)
"""
import math

import numpy as np

from ..core import Unit, Skip, SolverRaised, logu, uni, choice
from .. import boundary
from .. import catalogue as C
from .c16 import make_eos

RULE = ("restriction catalogue RESTR (one entry per documented restriction, each with violating and boundary values) "
        "executed exhaustively in both tiers, plus random repetitions with random valid values for the other parameters; "
        "in-domain finiteness on the catalogue sweep of all classes.  distinct = (monitor, class, restriction/value).")
ASSUME = ["the restriction catalogue was written from docstrings, parameter help and error messages of the pinned tree",
          "documented vacuum: density == 0 (EHEP void, Sedov vacuum type / origin) may carry NaN sie and sound speed"]

PI = math.pi
# (class path, valid base kwargs, parameter, bad values, source sentence)
RESTR = [
    ("noh.noh1:Noh", {}, "geometry", [0, 4, -1, 2.5], "geometry must be 1, 2, or 3"),
    ("noh.noh1:Noh", {}, "u0", [0.0, 1.0], "Incident velocity must be negative"),
    ("noh2.noh2:Noh2", {}, "geometry", [0, 4], "geometry must be 1, 2, or 3"),
    ("noh2.noh2_cog:Noh2Cog", {}, "geometry", [0, 4], "geometry must be 1, 2, or 3"),
    ("sedov.sedov:Sedov", {}, "geometry", [0, 4], "geometry must be 1, 2, or 3"),
    ("sedov.sedov:Sedov", {}, "gamma", [1.0, 0.9], "gamma must be greater than 1"),
    ("sedov.sedov:Sedov", {}, "rho0", [0.0, -1.0], "density must be greater than 0"),
    ("sedov.sedov:Sedov", {}, "eblast", [0.0, -1.0], "eblast must be greater than 0"),
    ("sedov.sedov:Sedov", {}, "omega", [-0.1, 3.0, 3.5], "omega must be between 0 and geometry"),
    ("guderley.guderley:Guderley", {}, "geometry", [0, 4], "1=planar, 2=cylindrical, 3=spherical"),
    ("cog.cog1:Cog1", {}, "geometry", [0, 4], "geometry must be 1, 2, or 3"),
    ("cog.cog10:Cog10", {}, "geometry", [1, 4], "geometry must be 2, or 3"),
    ("cog.cog12:Cog12", {}, "geometry", [1, 4], "geometry must be 2, or 3"),
    ("cog.cog16:Cog16", {}, "geometry", [1, 4], "geometry must be 2, or 3"),
    ("cog.cog16:Cog16", {"geometry": 3}, "b", [2, 2.0], "the parameter b canot equal to geometry-1"),
    ("cog.cog13:Cog13", {}, "gamma", [1.0], "gamma cannot be one"),
    ("cog.cog18:Cog18", {}, "alpha", [0, 0.0], "alpha cannot equal 0"),
    ("cog.cog19:Cog19", {}, "u0", [0.0, 1.0], "u0 must be strictly negative"),
    ("cog.cog20:Cog20", {}, "a", [0.0], "parameter a cannot be zero"),
    ("ehep.ehep:EscapeOfHEProducts", {}, "gamma", [1.4, 2.9], "adiabatic index, must be 3.0"),
    ("ehep.ehep:EscapeOfHEProducts", {}, "geometry", [2, 3], "1=axial"),
    ("ehep.ehep:EscapeOfHEProducts", {}, "rho_0", [0.0, -1.0], "Initial density must be > 0"),
    ("ehep.ehep:EscapeOfHEProducts", {"D": 0.85}, "up", [-0.1, 0.85 / 4, 0.5], "Piston velocity must be >= 0 and less than D/(gamma+1)"),
    ("ehep.ehep:EscapeOfHEProducts", {"xmax": 10.0}, "xtilde", [0.0, -1.0, 11.0], "xtilde must be between zero and xmax"),
    ("ehep.ehep:EscapeOfHEProducts", {}, "tmax", [0.0, -1.0], "tmax must be >0"),
    ("ehep.ehep:EscapeOfHEProducts", {}, "D", [0.0, -1.0], "detonation velocity (positive)"),
    ("sdrz.sdrz:SteadyDetonationReactionZone", {}, "D", [0.0, -1.0], "Detonation velocity must be >=0"),
    ("sdrz.sdrz:SteadyDetonationReactionZone", {}, "rho_0", [0.0, -1.0], "Initial density must be >=0"),
    ("sdrz.sdrz:SteadyDetonationReactionZone", {}, "gamma", [0.0, -1.0], "Adiabatic index must be >=0"),
    ("sdrz.sdrz:SteadyDetonationReactionZone", {}, "geometry", [2, 3], "Problem is axial only, geometry must be set to 1"),
    ("kenamond.kenamond1:Kenamond1", {}, "geometry", [1, 4], "geometry must be 2 or 3"),
    ("kenamond.kenamond1:Kenamond1", {}, "D", [0.0, -1.0], "Detonation velocity must be > 0"),
    ("kenamond.kenamond1:Kenamond1", {"geometry": 2}, "x_d", [(0.0, 0.0, 0.0), (1.0,)], "Detonator location and geometry dimensions must be compatible"),
    ("kenamond.kenamond2:Kenamond2", {}, "geometry", [1, 4], "geometry must be 2 or 3"),
    ("kenamond.kenamond2:Kenamond2", {}, "R", [0.0, -1.0], "Inner HE radius must be > 0"),
    ("kenamond.kenamond2:Kenamond2", {}, "D1", [0.0, -1.0, 0.5, 1.0], "D1 > D2 (parameter help: D2 < D1)"),
    ("kenamond.kenamond2:Kenamond2", {}, "D2", [0.0, -1.0], "Detonation velocity 2 must be > 0"),
    ("kenamond.kenamond2:Kenamond2", {}, "dets", [[10.0, 5.0, -5.0], [10.0, 2.0, -5.0, -10.0], [10.0, 3.0, -5.0, -10.0]], "4 detonators, all in the outer HE region"),
    ("kenamond.kenamond2:Kenamond2", {}, "t_d", [[2.0, 1.0, 0.0, 1.0], [2.0, -1.0, 0.0, 1.0, 2.0]], "5 detonation times satisfying t_di >= t_d3 + R(1/D1+1/D2) - |a_i|/D2"),
    ("kenamond.kenamond3:Kenamond3", {}, "geometry", [1, 4], "geometry must be 2 or 3"),
    ("kenamond.kenamond3:Kenamond3", {}, "R", [0.0, -1.0], "Inert obstacle radius must be > 0"),
    ("kenamond.kenamond3:Kenamond3", {}, "D", [0.0, -1.0], "Detonation velocity must be > 0"),
    ("kenamond.kenamond3:Kenamond3", {"geometry": 2, "R": 3.0}, "x_d", [(0.0, 3.0), (0.0, 1.0), (0.0, 5.0, 0.0)], "Detonator must be outside of inert region; dimensions compatible"),
    ("dsd.cylexpansion:CylindricalExpansion", {}, "geometry", [1, 3], "geometry must be 2"),
    ("dsd.cylexpansion:CylindricalExpansion", {}, "r_1", [0.0, -1.0, 0.2, 0.1], "r_1 > 0 and r_1 > alpha_1/D_CJ_1 (documented: radii large enough to avoid the singularity)"),
    ("dsd.cylexpansion:CylindricalExpansion", {}, "r_2", [0.0, 1.0, 0.5], "r_2 > r_1"),
    ("dsd.cylexpansion:CylindricalExpansion", {"r_1": 0.05, "alpha_1": 0.01}, "alpha_2", [-0.1, 3.0], "alpha_2 >= 0 and r_2 > alpha_2/D_CJ_2"),
    ("dsd.cylexpansion:CylindricalExpansion", {}, "D_CJ_1", [0.0, -1.0], "Detonation velocity for inner HE must be > 0"),
    ("dsd.cylexpansion:CylindricalExpansion", {}, "alpha_1", [-0.1], "Alpha for HE1 must be >= 0"),
    ("dsd.ratestick:RateStick", {"xnodes": 4, "ynodes": 4}, "geometry", [0, 3], "geometry must be 1 or 2"),
    ("dsd.ratestick:RateStick", {"xnodes": 4, "ynodes": 4}, "R", [0.0, -1.0], "Radius/thickness must be > 0"),
    ("dsd.ratestick:RateStick", {"xnodes": 4, "ynodes": 4}, "omega_c", [0.0, -0.1, PI / 2, 2.0], "DSD edge angle must be > 0 and < pi/2"),
    ("dsd.ratestick:RateStick", {"xnodes": 4, "ynodes": 4}, "D_CJ", [0.0, -1.0], "Detonation velocity must be > 0"),
    ("dsd.ratestick:RateStick", {"xnodes": 4, "ynodes": 4}, "alpha", [-0.1], "Alpha must be >= 0"),
    ("dsd.ratestick:RateStick", {"xnodes": 4, "ynodes": 4}, "IC", [0, 4], "IC must be 1, 2 or 3"),
    ("dsd.ratestick:RateStick", {"xnodes": 4, "ynodes": 4}, "t_f", [0.0, -1.0], "Final time must be positive"),
    ("dsd.ratestick:RateStick", {"ynodes": 4}, "xnodes", [0], "Number of x-nodes must be specified"),
    ("dsd.explosivearc:ExplosiveArc", {"xnodes": 4, "ynodes": 4}, "geometry", [2], "geometry must be 1"),
    ("dsd.explosivearc:ExplosiveArc", {"xnodes": 4, "ynodes": 4}, "r_1", [0.0, -1.0], "Inner radius must be > 0"),
    ("dsd.explosivearc:ExplosiveArc", {"xnodes": 4, "ynodes": 4}, "r_2", [1.0, 2.0], "Outer radius must be larger than inner radius"),
    ("dsd.explosivearc:ExplosiveArc", {"xnodes": 4, "ynodes": 4}, "omega_in", [0.0, PI / 2, 2.0], "Inner DSD edge angle must be > 0 and < pi/2"),
    ("dsd.explosivearc:ExplosiveArc", {"xnodes": 4, "ynodes": 4}, "x_d", [0.0, 1.0], "Detonator position must be < 0"),
    ("dsd.explosivearc:ExplosiveArc", {"xnodes": 4, "ynodes": 4}, "D_CJ", [0.0], "Detonation velocity must be > 0"),
    ("dsd.explosivearc:ExplosiveArc", {"xnodes": 4, "ynodes": 4}, "t_f", [0.0], "Final time must be positive"),
    ("blake.blake:Blake", {}, "geometry", [1, 2], "Only spherical geometry (= 3) implemented"),
    ("blake.blake:Blake", {}, "ref_density", [0.0, -1.0], "ref_density parameter is non-positive"),
    ("blake.blake:Blake", {}, "cavity_radius", [0.0, -1.0], "cavity_radius parameter is non-positive"),
    ("blake.blake:Blake", {}, "pressure_scale", [0.0, -1.0], "pressure_scale parameter is non-positive"),
    ("blake.blake:Blake", {}, "blake_debug", [1, "yes"], "blake_debug parameter is not boolean"),
    ("blake.blake:Blake", {"shear_mod": 25e9}, "poisson_ratio", [0.5, -1.0, 0.6], "poisson_ratio in the open interval (-1, 0.5)"),
    ("blake.blake:Blake", {"poisson_ratio": 0.25}, "shear_mod", [0.0, -1.0], "moduli are positive"),
    ("blake.blake:Blake", {"shear_mod": 25e9, "poisson_ratio": 0.25}, "bulk_mod", [4.0e10], "EXACTLY two of the six elastic parameters"),
    ("blake.blake:Blake", {}, "shear_mod", [25e9], "EXACTLY two of the six elastic parameters (one given)"),
    ("ep_piston.ep_piston:EPpiston", {}, "G", [0.0, -1.0], "Shear modulus must be > 0"),
    ("ep_piston.ep_piston:EPpiston", {}, "Y", [0.0, -1.0], "Yield Stress must be > 0"),
    ("ep_piston.ep_piston:EPpiston", {}, "rho0", [0.0, -1.0], "Initial density must be > 0"),
    ("ep_piston.ep_piston:EPpiston", {}, "up", [-0.01], "Piston velocity must be >= 0"),
    ("ep_piston.ep_piston:EPpiston", {}, "model", ["hyper", "", None], "model must be 'hypo', 'hyperIfin' or 'hyperFin'"),
]
# exhaustive list flattened: (entry index, value index)
FLAT = [(i, j) for i, r in enumerate(RESTR) for j in range(len(r[3]))]

BBNOH_IC = [
    ("velocity", [0.0, 1.0], "initial velocity must be negative"),
    ("density", [0.0, -1.0], "initial density must be positive"),
    ("pressure", [-1.0], "initial pressure must be nonnegative"),
    ("symmetry", [3, -1, 10], "Symmetry must be 0, 1, or 2"),
]


def gen_restr(rng, i, tier):
    k = i % (len(FLAT) + 12)
    return dict(k=k, seed=int(rng.integers(2 ** 31)), randomize=(i >= len(FLAT) + 12))


def run_restr(ctx, p):
    k = p["k"]
    rng = np.random.default_rng(p["seed"])
    if k >= len(FLAT):
        # black-box Noh: restrictions on the initial-condition dictionary and the geometry keyword
        from exactpack.solvers.nohblackboxeos.blackboxnoh import NohBlackBoxEos
        j = k - len(FLAT)
        flat = [(a, v, txt) for a, vals, txt in BBNOH_IC for v in vals] + [("geometry", 0, "geometry must be 1, 2, or 3"), ("geometry", 4, "geometry must be 1, 2, or 3"),
                                                                          ("pressure+symmetry", 1.0, "if symmetry != 0 the initial pressure must be 0")]
        a, v, txt = flat[j % len(flat)]
        ic = dict(density=1.0, velocity=-1.0, pressure=0.0, symmetry=2)
        kw = {}
        if a == "geometry":
            kw["geometry"] = v
        elif a == "pressure+symmetry":
            ic["pressure"] = v
        else:
            ic[a] = v
        outcome(ctx, "NohBlackBoxEos", "%s=%r" % (a, v), txt, lambda: NohBlackBoxEos(make_eos("ideal", dict(gamma=1.4)), ic, **kw))
        return
    i, j = FLAT[k]
    path, base, par, vals, txt = RESTR[i]
    cls = C.load(path)
    kw = dict(base)
    if p["randomize"]:
        # random valid values for the other parameters (from the catalogue), keeping the base of the entry
        ent, _ = C.general_entry_for(path, cls)
        if ent is not None and C.CAT[ent]["build"] is None and cls.__name__ not in ("Blake", "RateStick", "ExplosiveArc", "Kenamond2", "CylindricalExpansion"):
            try:
                geom = kw.get("geometry") or (choice(rng, C.CAT[ent]["geoms"]) if C.CAT[ent]["geoms"] else None)
                extra = C.CAT[ent]["gen"](rng, geom)
                for a, b in extra.items():
                    if a not in kw and a != par and a in cls.parameters:
                        kw[a] = b
                if geom is not None and "geometry" in cls.parameters and par != "geometry":
                    kw["geometry"] = geom
            except Exception:
                pass
    kw[par] = vals[j]
    outcome(ctx, cls.__name__, "%s=%r" % (par, vals[j]), txt, lambda: cls(**kw), probe=(cls, kw))


def outcome(ctx, name, branch, txt, build, probe=None):
    import contextlib
    import io
    import warnings
    try:
        with contextlib.redirect_stdout(io.StringIO()), warnings.catch_warnings():
            warnings.simplefilter("ignore")
            s = build()
    except ValueError:
        ctx.observe("restr.ctor", name, True, branch=branch, detail=dict(restriction=txt, outcome="ValueError"))
        return
    except Exception as ex:   # loud, but not the documented ValueError
        ctx.observe("restr.ctor", name, False, branch=branch, detail=dict(restriction=txt, outcome=type(ex).__name__, message=str(ex)[:160]))
        return
    ctx.observe("restr.ctor", name, False, branch=branch, detail=dict(restriction=txt, outcome="accepted"))


# ---- out-of-domain requests ---------------------------------------------------------------------------------------------
def dom_cases():
    """(label, builder, points, t, dependent fields or None=all non-position)"""
    from exactpack.solvers.noh2.noh2 import Noh2
    from exactpack.solvers.noh2.noh2_cog import Noh2Cog
    from exactpack.solvers.cog.cog1 import Cog1
    from exactpack.solvers.cog.cog6 import Cog6
    from exactpack.solvers.cog.cog8 import Cog8
    from exactpack.solvers.cog.cog18 import Cog18
    from exactpack.solvers.cog.cog21 import Cog21
    from exactpack.solvers.sedov.sedov import Sedov
    from exactpack.solvers.mader.timmes import Mader
    from exactpack.solvers.ep_piston.ep_piston import EPpiston
    from exactpack.solvers.ehep.ehep import EscapeOfHEProducts
    from exactpack.solvers.kenamond import Kenamond3
    from exactpack.solvers.blake import Blake
    from exactpack.solvers.guderley.guderley import Guderley
    r = np.array([0.1, 0.5, 1.0, 2.0])
    out = []
    for t in (1.0, 1.5, 10.0):
        out.append(("Noh2 t=%g (t must be less than 1)" % t, lambda: Noh2(), r, t))
        out.append(("Noh2Cog t=%g (t must be less than 1)" % t, lambda: Noh2Cog(), r, t))
    for cls in (Cog1, Cog8, Cog21):
        for t in (0.0, -1.0):
            out.append(("%s t=%g (no valid solution at t<=0)" % (cls.__name__, t), cls, r, t))
    for t in (1.25, -1.25):
        # t = +-tau: the documented formulas divide by tau^2 - t^2
        out.append(("Cog6 t=%g (singular at |t| = tau=1.25)" % t, lambda: Cog6(), r, t))
        out.append(("Cog18 t=%g (singular at |t| = tau=1.25)" % t, lambda: Cog18(), r, t))
    for t in (0.0, -1.0):
        out.append(("Sedov t=%g (no valid solution at t<=0)" % t, lambda: Sedov(), r, t))
        out.append(("Mader t=%g (no valid solution at t<=0)" % t, lambda: Mader(), np.linspace(0.1, 4.9, 8), t))
    out.append(("EPpiston t beyond xmax/wave speed", lambda: EPpiston(), np.array([0.1, 0.5, 1.0]), 10.0))
    for x, t, lab in ((np.array([0.5, 5.0, 9.0]), 20.0, "t > tmax"), (np.array([11.0, 20.0]), 1.0, "x > xmax"), (np.array([0.5, 1.0]), 0.0, "t = 0"),
                      (np.array([0.5, 1.0]), -1.0, "t < 0")):
        out.append(("EscapeOfHEProducts " + lab + " (outside the computed (xmax,tmax) window)", lambda: EscapeOfHEProducts(), x, t))
    out.append(("Kenamond3 point inside the inert obstacle", lambda: Kenamond3(), np.array([[0.0, 1.0], [1.0, 1.0]]), 0.0))
    out.append(("Blake negative radius", lambda: Blake(), np.array([-0.1, 0.2]), 1e-4))
    out.append(("Guderley geometry=1 (documented as planar, not implemented)", lambda: Guderley(geometry=1, gamma=3.0), np.array([0.5, 1.0]), 0.5))
    # (new cases are appended: witnesses of recorded findings address cases by their index)
    # the time guard of the Kidder-type solutions in every geometry (the volume factor (1-t)^geometry is positive again after
    # the singular time for even exponents)
    for g in (1, 2, 3):
        for t in (1.0 + 1e-9, 2.0, 3.0):
            out.append(("Noh2 geometry=%d t=%r (t must be less than 1)" % (g, t), (lambda g=g: Noh2(geometry=g)), r, t))
            out.append(("Noh2Cog geometry=%d t=%r (t must be less than 1)" % (g, t), (lambda g=g: Noh2Cog(geometry=g)), r, t))
    # points inside the inert obstacle in the middle of a list of valid points (a mesh that covers the obstacle): the last
    # element lists the records that are outside the domain - only those are judged
    out.append(("Kenamond3 point inside the inert obstacle among valid points", lambda: Kenamond3(), np.array([[1.0, 0.0], [4.0, 2.0], [3.0, -4.0]]), 0.0, [0]))
    out.append(("Kenamond3 (3-D) points inside the inert obstacle among valid points", lambda: Kenamond3(geometry=3, x_d=(0.0, 0.0, 5.0)),
                np.array([[4.0, 2.0, 0.0], [1.0, 0.0, 1.0], [0.0, 3.0, -4.0], [0.5, 0.5, 0.5]]), 0.0, [1, 3]))
    # beyond the singular time of the solutions that contain powers of (tau^2 - t^2) or (1 - a t): no real solution exists
    # there (non-integer powers of a negative number came back as complex arrays)
    from exactpack.solvers.cog.cog20 import Cog20
    for g in (1, 2, 3):
        for t in (2.0, -2.0, 1.25 * (1 + 1e-12)):
            out.append(("Cog6 geometry=%d t=%r (|t| > tau=1.25)" % (g, t), (lambda g=g: Cog6(geometry=g)), r, t))
            out.append(("Cog18 geometry=%d t=%r (|t| > tau=1.25)" % (g, t), (lambda g=g: Cog18(geometry=g)), r, t))
        for t in (1 / 0.3, 5.0, 40.0):
            out.append(("Cog20 geometry=%d t=%r (t >= 1/a, a=0.3)" % (g, t), (lambda g=g: Cog20(geometry=g)), r, t))
    # negative radii (ghost cells left of the origin, a rounding error in a mesh generator) where the library has a guard
    # (Sedov's tabulated profile starts at r = 0; Blake above); valid points in the same request are not judged.  The
    # closed-form solvers (Noh, Noh2, Coggeshall) document no restriction on r and return the formula's value: not judged.
    rneg = np.array([-0.5, -1e-12, 0.3, 0.8])
    for g in (1, 2, 3):
        out.append(("Sedov geometry=%d negative radius among valid points" % g, (lambda g=g: Sedov(geometry=g)), rneg, 1.0, [0, 1]))
        out.append(("Sedov geometry=%d omega=1 negative radius" % g, (lambda g=g: Sedov(geometry=g, omega=1.0)), np.array([-0.2, -0.01]), 0.5))
    out.append(("Cog6 b=0.5 tau=2 t=3 (|t| > tau)", lambda: Cog6(b=0.5, tau=2.0), r, 3.0))
    out.append(("Cog18 alpha=-1.5 beta=2 tau=0.7 t=1 (|t| > tau)", lambda: Cog18(alpha=-1.5, beta=2.0, tau=0.7), r, 1.0))
    return out


def gen_dom(rng, i, tier):
    return dict(k=i)


def run_dom(ctx, p):
    cases = dom_cases()
    case = cases[p["k"] % len(cases)]
    lab, build, pts, t = case[:4]
    judged = case[4] if len(case) > 4 else None
    name = lab.split()[0]
    try:
        s = ctx.quiet(build)
        sol = ctx.call(s, pts, t)
    except SolverRaised as ex:
        ctx.observe("restr.domain", name, True, branch=lab, detail=dict(outcome="raised " + type(ex.exc).__name__))
        return
    dep = [n for n in sol.dtype.names if not n.startswith("position") and n not in ("radius", "region", "xdet") and sol[n].dtype.kind in "fc"]
    # "finite numbers that look like a solution": a record all of whose dependent fields are finite
    allfin = np.ones(len(sol), dtype=bool)
    for n in dep:
        allfin &= np.isfinite(np.asarray(sol[n]))      # (a complex number is finite when both of its parts are)
    if judged is not None:
        allfin = allfin[np.asarray(judged, dtype=int)]
    ctx.observe("restr.domain", name, not allfin.any(), branch=lab, detail=dict(outcome="returned", records_entirely_finite=int(allfin.sum()),
                sample={n: [str(v) for v in np.asarray(sol[n])[:3]] for n in dep[:5]}))


# ---- in-domain finiteness (online) -------------------------------------------------------------------------------------------
def finite_monitor(ctx, s, before, after, t, sol):
    if not getattr(ctx, "_c20_indomain", False):
        return
    name = type(s).__name__
    N = sol.dtype.names
    rho = np.asarray(sol["density"], float) if "density" in N else None
    vac = (rho == 0.0) if rho is not None else np.zeros(len(sol), dtype=bool)
    bad = {}
    for n in N:
        if sol[n].dtype.kind != "f":
            continue
        v = np.asarray(sol[n], float)
        m = ~np.isfinite(v)
        if n in ("specific_internal_energy", "sound_speed", "temperature"):
            m = m & ~vac
        if m.any():
            bad[n] = int(m.sum())
    ctx.observe("finite", name, not bad, detail=dict(nonfinite=bad, t=t, n=len(sol),
                params={k: getattr(s, k) for k in getattr(s, "parameters", {}) if isinstance(getattr(s, k, None), (int, float, str))}) if bad else None)


def setup(ctx):
    boundary.install(ctx, [finite_monitor])


_all = {}


def classes():
    if not _all:
        for q, cls in sorted(C.discover().items()):
            ent = C.general_entry_for(q, cls)[0]
            if ent:
                _all[q] = (cls, ent)
    return _all


def gen_fin(rng, i, tier):
    return dict(slot=i, seed=int(rng.integers(2 ** 31)))


def run_fin(ctx, p):
    cl = classes()
    keys = sorted(cl)
    q = keys[p["slot"] % len(keys)]
    cls, ent = cl[q]
    e = C.CAT[ent]
    rep = p["slot"] // len(keys)
    if e["cost"] > 5 and (rep > 0 or not ctx.thorough()):
        raise Skip("costly_class_thinned")
    if e["cost"] >= 1 and rep % 3 != 0:
        raise Skip("costly_class_thinned")
    rng = np.random.default_rng(p["seed"])
    ctx._c20_indomain = True
    try:
        e0 = C.CAT[ent]
        # draw() itself filters inadmissible (NaN) draws; here every produced in-domain call is judged, so instantiate directly
        for _ in range(6):
            try:
                s, passed, g, full = C.instantiate(ctx, cls, ent, rng)
                if e0.get("admit") is not None and not e0["admit"](s):
                    continue
                pts, t = e0["domain"](rng, s, full, g, 12 if e0["cost"] < 1 else 5)
                ctx.call(s, pts, t)
                break
            except SolverRaised:
                continue
    finally:
        ctx._c20_indomain = False


# weak-radiation equilibrium-diffusion shocks (P0 of a few 1e-5: cool upstream state): valid problems, the profile that the
# constructor builds must consist of finite numbers
RADWEAK = [dict(M0=1.2, gamma=1.4, Tref=56.4), dict(M0=1.2, gamma=1.4, Tref=56.4, Cv=1.6e12, rho0=0.75), dict(M0=1.2, gamma=1.4),
           dict(M0=1.2, gamma=1.4, Tref=56.40737597480774, Cv=1607189443105.6794, rho0=0.7531517548157336), dict(M0=1.2, gamma=1.4, Tref=80.0, rho0=0.75)]


def gen_radweak(rng, i, tier):
    if i < len(RADWEAK):
        return dict(kw=RADWEAK[i])
    return dict(kw=dict(M0=float(choice(rng, [1.05, 1.2, 1.4])), gamma=1.4, Tref=uni(rng, 50.0, 70.0)))


def run_radweak(ctx, p):
    from exactpack.solvers.radshocks.nED_radshocks import ED_Solver
    import warnings
    with warnings.catch_warnings():
        warnings.simplefilter("ignore")
        s = ctx.make(ED_Solver, **p["kw"])
    bad = 0
    n = 0
    for a in ("x", "Density", "Tm", "Speed", "Pressure"):
        v = np.asarray(getattr(s, a), dtype=float)
        bad += int((~np.isfinite(v)).sum())
        n += v.size
    sol = ctx.call(s, np.array([0.0]), 0.0)      # the shock position is inside every profile
    fin = all(np.all(np.isfinite(np.asarray(sol[f], float))) for f in sol.dtype.names if sol[f].dtype.kind == "f")
    ctx.observe("finite", "ED_Solver", bad == 0 and fin, branch="weak-radiation problem: profile and the record at the shock position are finite",
                detail=dict(kw=p["kw"], P0=float(s.P0), non_finite_profile_values=bad, profile_values=n, record_at_shock_finite=bool(fin)))


# hostile but valid series parameters (aspect ratios, Robin coefficients): NaN must not appear
def gen_series(rng, i, tier):
    kind = i % 3
    if kind == 0:
        co = [0.5, -0.5, 1.0, -1.0, 2.0, -2.0, 3.0]
        return dict(kind="Rod1D", kw=dict(alpha1=choice(rng, co), beta1=choice(rng, co), gamma1=uni(rng, -2, 2), alpha2=choice(rng, co),
                                          beta2=choice(rng, co), gamma2=uni(rng, -2, 2), L=logu(rng, 0.5, 4), Nsum=100))
    if kind == 1:
        a = logu(rng, 0.3, 3)
        return dict(kind="Rectangle", kw=dict(a=a, b=a * logu(rng, 0.3, 12), Nsum=100, Ttop=1.0, kappa=1.0))
    b = logu(rng, 0.3, 3)
    return dict(kind="Hutchens2", kw=dict(b=b, L=b / logu(rng, 0.3, 8), Nsum=100))


def run_series(ctx, p):
    from exactpack.solvers.heat.rod1d import Rod1D
    from exactpack.solvers.heat.rectangle import Rectangle
    from exactpack.solvers.heat.hutchens2 import Hutchens2
    kw = p["kw"]
    if p["kind"] == "Rod1D":
        s = ctx.make(Rod1D, **kw)
        T = np.asarray(ctx.call(s, np.linspace(0, kw["L"], 7), 0.1)["temperature"], float)
        br = "Robin coefficients"
    elif p["kind"] == "Rectangle":
        s = ctx.make(Rectangle, **kw)
        T = np.asarray(ctx.call(s, np.array([np.full(5, 0.5 * kw["a"]), np.linspace(0.1, 1.0, 5) * kw["b"]]), 0.1)["temperature"], float)
        br = "aspect ratio b/a %s 7" % ("<=" if kw["b"] / kw["a"] <= 7 else ">")
    else:
        s = ctx.make(Hutchens2, **kw)
        T = np.asarray(ctx.call(s, np.array([np.linspace(0.1, 1.0, 5) * kw["b"], np.full(5, 0.5 * kw["L"])]), 0.0)["temperature"], float)
        br = "aspect ratio b/L %s 1.1" % ("<=" if kw["b"] / kw["L"] <= 1.1 else ">")
    ctx.observe("finite", p["kind"], bool(np.all(np.isfinite(T))), branch=br, detail=dict(kw=kw, values=T.tolist()))


def reach(tot, tier):
    n = sum(1 for k in tot["stats"] if k.startswith("restr.ctor|"))
    out = []
    if n < len(FLAT):
        out.append("only %d of %d catalogued restriction values executed" % (n, len(FLAT)))
    return out


# ---- Blake: every pair of elastic constants taken from a material that is not positive definite ---------------------------------
NONPD = [(1.0, 0.7), (-1.0, 0.7), (1.0, -1.5), (1.0, 1.5), (-1.0, 0.25), (1.0, 0.9), (-1.0, 0.55), (1.0, -2.5)]     # (sign of G, nu)


def gen_blake(rng, i, tier):
    from .c15 import PAIRS
    sg, nu = NONPD[(i // 15) % len(NONPD)]
    return dict(pair=list(PAIRS[i % 15]), G=sg * (25e9 if i < 15 * len(NONPD) else logu(rng, 1e6, 1e12)),
                nu=nu if i < 15 * len(NONPD) else nu * uni(rng, 0.97, 1.03))


def run_blake(ctx, p):
    from exactpack.solvers.blake import Blake
    from .c15 import NAMES, material
    m = material(p["G"], p["nu"])
    a, b = NAMES[p["pair"][0]], NAMES[p["pair"][1]]
    given = {a: m[a], b: m[b]}
    br = "Blake(%s, %s) from a material that is not positive definite" % (a, b)
    det = dict(given=given, material=m)
    try:
        s = ctx.make(Blake, **given)
    except SolverRaised as e:
        ctx.observe("restr.ctor", "Blake", isinstance(e.exc, ValueError), branch=br, detail=dict(det, raised=type(e.exc).__name__, message=str(e.exc)[:200]))
        return
    # accepted: legitimate only if the pair also belongs to an admissible material (E and M determine two materials)
    six = {n: float(getattr(s, n)) for n in NAMES}
    adm = six["shear_mod"] > 0 and six["bulk_mod"] > 0 and -1.0 < six["poisson_ratio"] < 0.5
    rep = all(abs(six[k] - v) <= 1e-9 * max(abs(v), abs(six[k])) for k, v in given.items())
    ctx.observe("restr.ctor", "Blake", adm and rep, branch=br, detail=dict(det, accepted_as=six, admissible=adm, reproduces_given=rep))


# ---- Kenamond 2: the documented ordering of detonation times, with every parameter of the inequality varied -----------------------
def gen_k2times(rng, i, tier):
    R = logu(rng, 0.5, 5)
    D2 = logu(rng, 0.3, 3)
    D1 = D2 * uni(rng, 1.1, 4)
    dets = [R * uni(rng, 2.5, 5), R * uni(rng, 1.1, 2.4), -R * uni(rng, 1.1, 2.4), -R * uni(rng, 2.5, 5)]
    t3 = [0.0, uni(rng, 0.2, 3), -uni(rng, 0.2, 3)][i % 3]                      # the centre detonator fires at, after, before the time origin
    slack = [uni(rng, 0.0, 2.0) for _ in range(4)]
    return dict(geometry=2 + i % 2, R=R, D1=D1, D2=D2, dets=dets, t3=t3, slack=slack, which=int(rng.integers(4)),
                delta=[-1.0, -1e-6, 1e-6, 1.0, -0.3, 0.3][(i // 3) % 6])


def run_k2times(ctx, p):
    from exactpack.solvers.kenamond import Kenamond2
    R, D1, D2, dets, t3 = p["R"], p["D1"], p["D2"], p["dets"], p["t3"]
    scale = R / D2
    bound = [t3 + R * (1.0 / D1 + 1.0 / D2) - abs(a) / D2 for a in dets]          # documented: t_di >= bound_i
    td = [bound[k] + p["slack"][k] * scale for k in range(4)]
    td[p["which"]] = bound[p["which"]] + p["delta"] * scale
    t_d = [td[0], td[1], t3, td[2], td[3]]
    valid = p["delta"] > 0
    br = "t_d%d = bound %+g R/D2, t_d3 %s 0" % ([1, 2, 4, 5][p["which"]], p["delta"], "=" if t3 == 0 else (">" if t3 > 0 else "<"))
    det = dict(R=R, D1=D1, D2=D2, dets=dets, t_d=t_d, bound=bound)
    try:
        s = ctx.make(Kenamond2, geometry=p["geometry"], R=R, D1=D1, D2=D2, dets=list(dets), t_d=list(t_d))
    except SolverRaised as e:
        ok = (not valid) and isinstance(e.exc, ValueError)
        ctx.observe("restr.ctor", "Kenamond2", ok, branch=br + (" (violating: rejected)" if not valid else " (admissible: must be accepted)"),
                    detail=dict(det, raised=type(e.exc).__name__, message=str(e.exc)[:160]))
        return
    ctx.observe("restr.ctor", "Kenamond2", valid, branch=br + (" (admissible: accepted)" if valid else " (violating: must be rejected)"), detail=dict(det, outcome="accepted"))


# ---- EHEP: inside the documented window (0 <= x <= xmax, 0 < t <= tmax) the products are where the slab was ----------------------------
def gen_ehepwin(rng, i, tier):
    D = logu(rng, 0.3, 3)
    xt = logu(rng, 0.3, 3)
    return dict(D=D, rho_0=logu(rng, 0.5, 5), up=D * uni(rng, 0.01, 0.2), xtilde=xt, xmax=xt * uni(rng, 1.02, 3.0), tmax=xt / D * uni(rng, 1.05, 4.0),
                pseed=int(rng.integers(2 ** 31)))


def run_ehepwin(ctx, p):
    from exactpack.solvers.ehep.ehep import EscapeOfHEProducts
    kw = {k: p[k] for k in ("D", "rho_0", "up", "xtilde", "xmax", "tmax")}
    s = ctx.make(EscapeOfHEProducts, **kw)
    rng = np.random.default_rng(p["pseed"])
    bad, n = [], 0
    for t in p["tmax"] * np.array([0.1, 0.3, 0.5, 0.7, 0.85, 0.95, 0.999]):
        lo, hi = p["up"] * t, min(0.98 * p["D"] * t, p["xmax"])
        if lo >= 0.98 * hi:
            continue
        x = lo + (hi - lo) * rng.uniform(0.02, 0.98, size=8)
        sol = ctx.call(s, np.sort(x), float(t))
        rho = np.asarray(sol["density"], float)
        n += len(rho)
        for xx, r in zip(np.sort(x), rho):
            if not (np.isfinite(r) and r > 0):
                bad.append([float(xx), float(t), float(r)])
    # between the piston (x = up t) and the leading edge of the products (the detonation front x = D t, which for gamma = 3
    # is also the escape front after it has left the slab) there is explosive or detonation product at every time: a
    # zero-density ("no region") record there is not a solution
    ctx.observe("restr.domain", "EscapeOfHEProducts", not bad, branch="inside the documented window, between piston and leading edge (up t < x < 0.98 D t): density > 0",
                detail=dict(params=kw, points_checked=n, first_bad=bad[:3], n_bad=len(bad)))


# ---- Blake at late times: every t > 0 is in the domain ------------------------------------------------------------------------------
def gen_blakelate(rng, i, tier):
    from .c15 import material
    m = material(logu(rng, 1e9, 1e11), uni(rng, 0.05, 0.45))
    return dict(shear_mod=m["shear_mod"], poisson_ratio=m["poisson_ratio"], ref_density=logu(rng, 1000, 10000), cavity_radius=logu(rng, 0.01, 1.0),
                pressure_scale=m["bulk_mod"] * logu(rng, 1e-5, 1e-3), frac=[0.3, 0.8, 0.95, 0.98, 0.99, 0.995, 0.999][i % 7])


def run_blakelate(ctx, p):
    from exactpack.solvers.blake import Blake
    kw = {k: p[k] for k in ("shear_mod", "poisson_ratio", "ref_density", "cavity_radius", "pressure_scale")}
    s = ctx.make(Blake, **kw)
    nu, a = p["poisson_ratio"], p["cavity_radius"]
    cl = math.sqrt(float(s.long_mod) / p["ref_density"])
    n = ((1.0 - 2.0 * nu) / (1.0 - nu)) * (cl / a)
    # the strain formula holds exp(n (t + a/cl)): times up to the point where that factor leaves the floating-point range
    t = p["frac"] * 709.0 / n - a / cl
    ctx._c20_indomain = True
    try:
        ctx.call(s, a * np.array([1.0, 1.5, 3.0, 10.0, 100.0]), t)      # judged by the online finiteness monitor
    finally:
        ctx._c20_indomain = False


UNITS = [
    Unit("blake.late", gen_blakelate, run_blakelate, quick=21, thorough=210, min_nontrivial=10),
    Unit("ehep.window", gen_ehepwin, run_ehepwin, quick=48, thorough=480, min_nontrivial=40),
    Unit("kenamond2.times", gen_k2times, run_k2times, quick=72, thorough=720, min_nontrivial=60),
    Unit("blake.nonpd", gen_blake, run_blake, quick=15 * len(NONPD), thorough=15 * len(NONPD) * 6, min_nontrivial=100),
    Unit("restriction", gen_restr, run_restr, quick=(len(FLAT) + 12) * 2, thorough=(len(FLAT) + 12) * 12, min_nontrivial=len(FLAT)),
    Unit("domain", gen_dom, run_dom, quick=96, thorough=96, min_nontrivial=80),
    Unit("finite", gen_fin, run_fin, quick=360, thorough=3600, min_nontrivial=250),
    Unit("rad.weak", gen_radweak, run_radweak, quick=len(RADWEAK) + 3, thorough=len(RADWEAK) + 40, min_nontrivial=len(RADWEAK)),
    Unit("series", gen_series, run_series, quick=90, thorough=1800, min_nontrivial=60),
]

"""Fresh-interpreter reference for C06: build one solver from its spec, make ONE call, print the digest.

Started as `python -m rtm.fresh` by the C06 driver with a JSON {"spec":..., "sig":...} on stdin; nothing else has
run in this interpreter, so the result is the value "as a function of (parameters, point, time) alone"."""
import json
import sys
import warnings

import numpy as np


def main():
    warnings.simplefilter("ignore")
    np.seterr(all="ignore")
    job = json.load(sys.stdin)
    from . import specs
    try:
        s = specs.build(job["spec"])
        sol = specs.call(s, job["sig"])
        out = dict(ok=True, digest=specs.digest(sol), values=specs.values(sol))
    except Exception as e:  # noqa: BLE001
        out = dict(ok=False, error="%s: %s" % (type(e).__name__, str(e)[:200]))
    sys.stdout.write(json.dumps(out))
    return 0


if __name__ == "__main__":
    sys.exit(main())

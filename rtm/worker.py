"""One shard of a check: runs its share of the cases of a property and dumps what the
monitors observed as JSON.  Always started as a fresh process by rtm.runner."""
import importlib
import json
import os
import sys
import time
import warnings

import numpy as np


def load_findings():
    from .core import VERIF
    with open(os.path.join(VERIF, "known_findings.json")) as f:
        return json.load(f)["findings"]


def main(argv):
    prop, tier, seed, shard, nshards, out = argv[:6]
    replay = argv[6] if len(argv) > 6 else None
    seed, shard, nshards = int(seed), int(shard), int(nshards)
    warnings.simplefilter("ignore")
    np.seterr(all="ignore")
    from .core import Ctx, case_rng, Skip
    mod = importlib.import_module("rtm.props." + prop.lower())
    ctx = Ctx(prop, tier, seed, shard, nshards)
    units = {u.name: u for u in mod.UNITS}
    from . import boundary
    boundary.install_ctor_recorder()
    if hasattr(mod, "setup"):
        mod.setup(ctx)
    budget = float(os.environ.get("VERIF_SHARD_BUDGET_S", "0") or 0)

    if replay:
        with open(replay) as f:
            rp = json.load(f)
        u = units[rp["unit"]]
        ctx.run_case(u, rp.get("index", -1), rp["params"])
    else:
        # 1. deterministic witness probes of the open known findings (shard 0 only)
        if shard == 0:
            for ent in load_findings():
                if ent.get("property") != prop or ent.get("status") != "open":
                    continue
                w = ent.get("witness")
                if not w or w["unit"] not in units:
                    continue
                ctx.witness_for = ent["id"]
                ctx.run_case(units[w["unit"]], -1, w["params"])
                ctx.witness_for = None
        # 2. the seeded workload: case g of the global enumeration goes to shard g % nshards
        g = 0
        t_start = time.time()
        for u in mod.UNITS:
            n = u.count(tier)
            for i in range(n):
                mine = (g % nshards) == shard
                g += 1
                if not mine:
                    continue
                if budget and time.time() - t_start > budget:
                    ctx.count("budget_skipped:" + u.name)
                    continue
                rng = case_rng(seed, prop, u.name, i)
                try:
                    params = u.gen(rng, i, tier)
                except Skip as e:
                    ctx.count("gen_skipped:%s:%s" % (u.name, e.reason))
                    continue
                if params is None:
                    ctx.count("gen_inadmissible:" + u.name)
                    continue
                ctx.run_case(u, i, params)
    if hasattr(mod, "teardown"):
        mod.teardown(ctx)
    d = ctx.dump()
    d["ctor_seen"], d["ctor_built"] = boundary.ctor_seen()
    with open(out, "w") as f:
        json.dump(d, f)
    return 0


if __name__ == "__main__":
    sys.exit(main(sys.argv[1:]))

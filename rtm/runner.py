"""Front end of a check: fan out shards, merge, classify, write evidence, decide."""
import argparse
import fnmatch
import hashlib
import importlib
import json
import os
import shutil
import subprocess
import sys
import time

VERIF = os.path.dirname(os.path.dirname(os.path.abspath(__file__)))
DEPS = os.path.join(VERIF, ".deps")
PY = os.environ.get("EXACTPACK_PYTHON", "/venv/bin/python")
WHEELS = "/opt/veriftools/wheels"


def ensure_deps():
    need = [p for p in ("icontract", "jsonschema") if not os.path.isdir(os.path.join(DEPS, p))]
    if need:
        subprocess.run([PY, "-m", "pip", "install", "-q", "--no-index", "--find-links", WHEELS,
                        "--target", DEPS, "icontract", "jsonschema"],
                       check=True, stdout=subprocess.DEVNULL, stderr=subprocess.DEVNULL)


def child_env():
    env = dict(os.environ)
    repo = os.environ.get("EXACTPACK_REPO", "/repo")
    env["PYTHONPATH"] = os.pathsep.join([repo, VERIF, DEPS])
    env["PYTHONHASHSEED"] = "0"
    env["EXACTPACK_VERIF"] = "1"
    env["MPLBACKEND"] = "Agg"
    for v in ("OMP_NUM_THREADS", "OPENBLAS_NUM_THREADS", "MKL_NUM_THREADS"):
        env[v] = "1"
    return env


def load_findings():
    with open(os.path.join(VERIF, "known_findings.json")) as f:
        return json.load(f)["findings"]


def finding_matches(ent, v):
    if ent.get("status") != "open":
        return False
    for k in ("monitor", "solver", "branch"):
        pat = ent.get(k)
        if pat is not None and not fnmatch.fnmatchcase(str(v.get(k, "")), pat):
            return False
    where = ent.get("where")
    if where:
        ns = {}
        if isinstance(v.get("params"), dict):
            ns.update(v["params"])
        if isinstance(v.get("detail"), dict):
            ns.update(v["detail"])
        ns["measure"] = v.get("measure")
        try:
            if not eval(where, {"__builtins__": {}, "abs": abs, "min": min, "max": max,
                                "float": float, "str": str, "len": len}, ns):
                return False
        except Exception:
            return False
    return True


def merge(shards):
    tot = dict(stats={}, cells={}, violations=[], counters={}, samples={}, unit_nontrivial={},
               harness_errors=[], raised={}, ctor_seen={}, ctor_built={})
    for d in shards:
        for c, ps in d.get("ctor_seen", {}).items():
            for k, vs in ps.items():
                tot["ctor_seen"].setdefault(c, {}).setdefault(k, set()).update(vs)
        for c, n in d.get("ctor_built", {}).items():
            tot["ctor_built"][c] = tot["ctor_built"].get(c, 0) + n
        for k, st in d["stats"].items():
            t = tot["stats"].setdefault(k, dict(evals=0, held=0, violated=0, inconclusive=0,
                                                trivial=0, worst=0.0, worst_measure=None, tol=None))
            for f in ("evals", "held", "violated", "inconclusive", "trivial"):
                t[f] += st[f]
            if st["worst"] > t["worst"]:
                t["worst"], t["worst_measure"], t["tol"] = st["worst"], st["worst_measure"], st["tol"]
        for k, c in d["cells"].items():
            tot["cells"].setdefault(k, set()).update(c)
        tot["violations"].extend(d["violations"])
        for k, n in d["counters"].items():
            tot["counters"][k] = tot["counters"].get(k, 0) + n
        for k, n in d["raised"].items():
            tot["raised"][k] = tot["raised"].get(k, 0) + n
        for k, n in d["unit_nontrivial"].items():
            tot["unit_nontrivial"][k] = tot["unit_nontrivial"].get(k, 0) + n
        for k, lst in d["samples"].items():
            cur = tot["samples"].setdefault(k, [])
            if len(cur) < 2:
                cur.extend(lst[:2 - len(cur)])
        tot["harness_errors"].extend(d["harness_errors"])
    return tot


def main(argv=None):
    ap = argparse.ArgumentParser(prog="check")
    ap.add_argument("prop")
    ap.add_argument("--tier", default=os.environ.get("VERIF_TIER", "quick"), choices=["quick", "thorough"])
    ap.add_argument("--seed", type=int, default=int(os.environ.get("VERIF_SEED", "0") or 0))
    ap.add_argument("--shards", type=int, default=int(os.environ.get("VERIF_SHARDS", "0") or 0))
    ap.add_argument("--replay", default=None)
    ap.add_argument("--no-evidence", action="store_true")
    a = ap.parse_args(argv)
    prop = a.prop.upper()
    t0 = time.time()
    ensure_deps()
    sys.path[:0] = [VERIF, DEPS]
    mod = importlib.import_module("rtm.props." + prop.lower())  # no exactpack import at module level
    nshards = a.shards or min(16, os.cpu_count() or 1)
    if a.replay:
        nshards = 1
    nshards = min(nshards, getattr(mod, "MAX_SHARDS", 16))
    # one directory per run: two runs of the same check at the same time (e.g. against two trees) must not share files
    base = os.path.join(VERIF, "logs", prop)
    os.makedirs(base, exist_ok=True)
    for f in os.listdir(base):           # runs that ended more than a day ago
        q = os.path.join(base, f)
        try:
            if os.path.isdir(q) and f.startswith("run-") and time.time() - os.path.getmtime(q) > 86400:
                shutil.rmtree(q, ignore_errors=True)
            elif os.path.isfile(q) and f.startswith("shard"):
                os.remove(q)
        except OSError:
            pass
    logdir = os.path.join(base, "run-%d-%d" % (int(time.time()), os.getpid()))
    os.makedirs(logdir, exist_ok=True)
    env = child_env()
    timeout = float(os.environ.get("VERIF_WATCHDOG_S") or (14400 if a.tier == "thorough" else 3000))
    procs = []
    for s in range(nshards):
        out = os.path.join(logdir, "shard%02d.json" % s)
        cmd = [PY, "-m", "rtm.worker", prop, a.tier, str(a.seed), str(s), str(nshards), out]
        if a.replay:
            cmd.append(os.path.abspath(a.replay))
        err = open(os.path.join(logdir, "shard%02d.err" % s), "w")
        procs.append((s, out, subprocess.Popen(cmd, env=env, cwd=VERIF, stdout=err, stderr=err), err))
    shards, dead = [], []
    for s, out, p, err in procs:
        left = max(1.0, timeout - (time.time() - t0))
        try:
            rc = p.wait(timeout=left)
        except subprocess.TimeoutExpired:
            p.kill()
            p.wait()
            rc = "watchdog"
        err.close()
        if rc == 0 and os.path.exists(out):
            with open(out) as f:
                shards.append(json.load(f))
        else:
            dead.append((s, rc))
    tot = merge(shards)
    if not dead:
        shutil.rmtree(logdir, ignore_errors=True)      # kept (with the shards' stderr) only when a shard did not finish

    # ---- classify violations ----------------------------------------------------------
    findings = [e for e in load_findings() if e.get("property") == prop]
    known_hit, unlisted = {}, []
    for v in tot["violations"]:
        ent = next((e for e in findings if finding_matches(e, v)), None)
        if ent is not None:
            known_hit.setdefault(ent["id"], []).append(v)
        else:
            unlisted.append(v)
    not_reproduced = [e["id"] for e in findings if e.get("status") == "open" and e["id"] not in known_hit]

    # ---- coverage -----------------------------------------------------------------------
    evaluations = sum(st["evals"] for st in tot["stats"].values())
    distinct = sum(len(c) for c in tot["cells"].values())
    per_monitor = {}
    for k, st in sorted(tot["stats"].items()):
        m, s, b = k.split("|", 2)
        pm = per_monitor.setdefault(m, dict(evals=0, held=0, violated=0, inconclusive=0, trivial=0,
                                            distinct_nontrivial=0, solvers={}, worst_over_tol=0.0))
        for f in ("evals", "held", "violated", "inconclusive", "trivial"):
            pm[f] += st[f]
        pm["distinct_nontrivial"] += len(tot["cells"].get(k, ()))
        sv = pm["solvers"].setdefault(s, dict(evals=0, branches={}))
        sv["evals"] += st["evals"]
        sv["branches"][b or "-"] = sv["branches"].get(b or "-", 0) + st["evals"]
        pm["worst_over_tol"] = max(pm["worst_over_tol"], st["worst"])
    samples = []
    for k in sorted(tot["samples"]):
        samples.extend(tot["samples"][k][:1])
    samples = samples[:40]
    if not samples:
        samples = [dict(note="no oracle evaluation completed", counters=tot["counters"])]

    # ---- inconclusive conditions --------------------------------------------------------
    incon = []
    if dead:
        incon.append("shards did not finish: %s" % dead)
    if tot["harness_errors"]:
        incon.append("%d harness errors (first: %s)" % (len(tot["harness_errors"]),
                                                       tot["harness_errors"][0]["error"]))
        # the failing case is kept as a replay file (a harness error is a defect of the check, to be reproduced and repaired)
        h0 = tot["harness_errors"][0]
        try:
            rdir = os.path.join(VERIF, "replays", prop)
            os.makedirs(rdir, exist_ok=True)
            rp = os.path.join(rdir, "harness-error-%s-%s.json" % (h0.get("unit"), h0.get("index")))
            with open(rp, "w") as fh:
                json.dump(dict(property=prop, unit=h0.get("unit"), index=h0.get("index"), params=h0.get("params"), error=h0.get("error"),
                               traceback=h0.get("tb")), fh, indent=1)
            print("  harness error in unit %s case %s, replay=%s\n  %s" % (h0.get("unit"), h0.get("index"), rp, (h0.get("tb") or "")[-600:].replace("\n", "\n  ")))
        except OSError:
            pass
    if not a.replay:
        for u in mod.UNITS:
            if u.count(a.tier) == 0:
                continue
            got = tot["unit_nontrivial"].get(u.name, 0)
            if got < u.min_nontrivial:
                incon.append("unit %s reached only %d non-trivial oracle evaluations (< %d)"
                             % (u.name, got, u.min_nontrivial))
        if hasattr(mod, "reach"):
            incon.extend(mod.reach(tot, a.tier) or [])

    # ---- replays, output ----------------------------------------------------------------
    rc = 0
    lines = []
    for fid, vs in sorted(known_hit.items()):
        ent = next(e for e in findings if e["id"] == fid)
        lines.append("KNOWN-FINDING: property=%s %s [%s; %d observation(s) this run]"
                     % (prop, ent["what"], fid, len(vs)))
    if unlisted:
        rc = 1
        rdir = os.path.join(VERIF, "replays", prop)
        os.makedirs(rdir, exist_ok=True)
        seen = set()
        for v in unlisted:
            key = (v["monitor"], v["solver"], v["branch"])
            if key in seen:
                continue
            seen.add(key)
            if len(seen) > 12:
                break
            h = hashlib.sha256(json.dumps(v, sort_keys=True).encode()).hexdigest()[:10]
            path = os.path.join(rdir, "%s-%s-%s.json" % (v["monitor"].replace("/", "_"), v["solver"], h))
            with open(path, "w") as f:
                json.dump(dict(property=prop, unit=v["unit"], index=v["index"], params=v["params"],
                               observed=v, tier=a.tier, seed=a.seed,
                               replay_cmd="./check %s --replay %s" % (prop, path)), f, indent=1)
            lines.append("VIOLATION property=%s replay=%s" % (prop, path))
            lines.append("  monitor=%s solver=%s branch=%s measure=%s tol=%s detail=%s"
                         % (v["monitor"], v["solver"], v["branch"], v["measure"], v["tol"],
                            json.dumps(v.get("detail"))[:400]))
    elif incon:
        rc = 2
        for m in incon:
            lines.append("INCONCLUSIVE property=%s %s" % (prop, m))

    wall = time.time() - t0
    if not a.no_evidence and not a.replay:
        ev = dict(
            property_id=prop, tier=a.tier, seed=a.seed, level="exploration",
            coverage=dict(
                evaluations=int(evaluations), distinct_nontrivial=int(distinct),
                rule=getattr(mod, "RULE", ""), samples=samples,
                per_monitor=per_monitor,
                counters=dict(sorted(tot["counters"].items())),
                solver_exceptions_seen=dict(sorted(tot["raised"].items())),
                known_findings_observed={k: len(v) for k, v in known_hit.items()},
                known_findings_not_reproduced=not_reproduced,
                unlisted_violations=len(unlisted),
                inconclusive_reasons=incon,
                # what the constructors were actually given (recorded at ExactSolver.__init__): per class the number of
                # solvers built and, per parameter, the number of distinct explicitly passed values (capped at 60)
                constructors_observed={c: dict(built=tot["ctor_built"].get(c, 0),
                                               distinct_values={k: len(v) for k, v in sorted(tot["ctor_seen"].get(c, {}).items())})
                                       for c in sorted(tot["ctor_built"])},
                shards=nshards, shards_dead=len(dead),
                verdict={0: "held on what was observed", 1: "violated", 2: "inconclusive"}[rc],
                repo=os.environ.get("EXACTPACK_REPO", "/repo"),
            ),
            assumptions=list(getattr(mod, "ASSUME", [])),
            wall_s=round(wall, 2), violations=len(unlisted))
        try:
            import jsonschema
            with open("/root/.vp/EVIDENCE.schema.json") as f:
                jsonschema.validate(ev, json.load(f))
        except FileNotFoundError:
            pass
        except Exception as e:  # schema failure: the evidence would be worthless
            lines.append("INCONCLUSIVE property=%s evidence does not validate: %s" % (prop, str(e)[:300]))
            if rc == 0:
                rc = 2
        os.makedirs(os.path.join(VERIF, "evidence"), exist_ok=True)
        with open(os.path.join(VERIF, "evidence", prop + ".json"), "w") as f:
            json.dump(ev, f, indent=1, sort_keys=True)

    print("== %s tier=%s seed=%d shards=%d wall=%.1fs evaluations=%d distinct_nontrivial=%d"
          % (prop, a.tier, a.seed, nshards, wall, evaluations, distinct))
    for m, pm in sorted(per_monitor.items()):
        print("   %-28s evals=%-7d held=%-7d viol=%-5d incon=%-5d trivial=%-5d distinct=%-6d worst/tol=%.3g solvers=%d"
              % (m, pm["evals"], pm["held"], pm["violated"], pm["inconclusive"], pm["trivial"],
                 pm["distinct_nontrivial"], pm["worst_over_tol"], len(pm["solvers"])))
    if tot["raised"]:
        print("   solver exceptions seen: %s" % json.dumps(tot["raised"]))
    for e in tot["harness_errors"][:3]:
        print("   HARNESS ERROR %s\n%s" % (e["error"], e["tb"]))
    if not_reproduced and not a.replay:
        print("   listed findings that did not reproduce this run: %s" % not_reproduced)
    for ln in lines:
        print(ln)
    print("== verdict: %s" % {0: "held on what was observed", 1: "VIOLATED", 2: "INCONCLUSIVE"}[rc])
    return rc


if __name__ == "__main__":
    sys.exit(main())

"""Boundary recorder: icontract postconditions on the one public call boundary
``ExactSolver.__call__(points, t) -> ExactSolution`` (no subclass overrides it).

The contract snapshots the caller's points before the call (icontract.snapshot) and, after the
call returned, hands (solver, points-before, points-after, t, result) to every online monitor
registered by the running check.  Monitors run in *collect* mode: they report to ctx.observe and
the condition returns True, so the first violation does not mask the rest of a workload.
Exceptions raised by the solver are not touched (icontract does not evaluate postconditions
after a raise); the drivers see them as SolverRaised through ctx.call.
"""
import numpy as np

_state = {"installed": False, "monitors": [], "ctx": None, "events": 0, "per_class": {}, "depth": 0}


class BoundaryContractBroken(Exception):
    pass


def _snap_points(r):
    try:
        return np.array(r, copy=True)
    except Exception:
        return None


def _post(self, r, t, result, OLD):
    st = _state
    if st["depth"] > 0:        # a monitor calling the solver itself must not recurse
        return True
    st["depth"] += 1
    try:
        st["events"] += 1
        n = type(self).__name__
        st["per_class"][n] = st["per_class"].get(n, 0) + 1
        for m in st["monitors"]:
            try:
                m(st["ctx"], self, OLD.points, r, t, result)
            except Exception as e:   # a monitor bug must be visible, not swallowed
                ctx = st["ctx"]
                if ctx is not None:
                    ctx.harness_errors.append(dict(unit=ctx.cur_unit, index=ctx.cur_index, params=None,
                                                   error="online monitor %s: %s: %s" % (getattr(m, "__name__", m), type(e).__name__, e),
                                                   tb=""))
    finally:
        st["depth"] -= 1
    return True


def install(ctx, monitors):
    import icontract
    from exactpack.base import ExactSolver
    _state["ctx"] = ctx
    _state["monitors"] = list(monitors)
    if not _state["installed"]:
        orig = ExactSolver.__dict__["__call__"]
        wrapped = icontract.ensure(_post, error=BoundaryContractBroken)(orig)
        wrapped = icontract.snapshot(_snap_points, name="points")(wrapped)
        ExactSolver.__call__ = wrapped
        _state["installed"] = True


def events():
    return _state["events"], dict(_state["per_class"])


# ---- constructor recorder: which values of which constructor parameter did the workload actually exercise? ---------------------
_ctor = {"installed": False, "seen": {}, "built": {}}


def install_ctor_recorder():
    """wrap ExactSolver.__init__ (the one constructor every solver class goes through) and record, per class, the distinct
    explicitly passed values of every parameter (at most 60 per parameter).  Observation only: arguments and result untouched."""
    from exactpack.base import ExactSolver
    if _ctor["installed"]:
        return
    orig = ExactSolver.__init__

    def recording_init(self, *a, **params):
        try:
            n = type(self).__name__
            _ctor["built"][n] = _ctor["built"].get(n, 0) + 1
            seen = _ctor["seen"].setdefault(n, {})
            for k, v in params.items():
                if k == "verbose":
                    continue
                vs = seen.setdefault(k, set())
                if len(vs) < 60:
                    try:
                        vs.add(repr(v)[:40])
                    except Exception:
                        vs.add("<unrepresentable>")
        except Exception:
            pass
        return orig(self, *a, **params)
    ExactSolver.__init__ = recording_init
    _ctor["installed"] = True


def ctor_seen():
    return {c: {k: sorted(v) for k, v in d.items()} for c, d in _ctor["seen"].items()}, dict(_ctor["built"])

"""Numerical oracle toolkit: derivatives with error bars, jump location, quadrature.

Everything here works on values obtained through the public solver call."""
import math

import numpy as np

EPS = np.finfo(float).eps

# offsets (in units of h/2) of the 9-point sample used for every derivative
OFF9 = np.arange(-4, 5)


def d1_4(fm2, fm1, fp1, fp2, h):
    return (-fp2 + 8.0 * fp1 - 8.0 * fm1 + fm2) / (12.0 * h)


def d2_4(fm2, fm1, f0, fp1, fp2, h):
    return (-fp2 + 16.0 * fp1 - 30.0 * f0 + 16.0 * fm1 - fm2) / (12.0 * h * h)


def derivs9(v, h):
    """v: array (..., 9) of samples at x + j*h/2, j=-4..4 (last axis).

    Returns (f, f1, e1, f2, e2): value, first derivative with error estimate, second
    derivative with error estimate.  Truncation error from Richardson (step h vs h/2,
    4th order => /15), round-off from eps*max|f|/h."""
    v = np.asarray(v, dtype=float)
    f = v[..., 4]
    fmax = np.max(np.abs(v), axis=-1)
    hh = h / 2.0
    a1 = d1_4(v[..., 0], v[..., 2], v[..., 6], v[..., 8], h)
    b1 = d1_4(v[..., 2], v[..., 3], v[..., 5], v[..., 6], hh)
    e1 = np.abs(a1 - b1) / 15.0 + 4.0 * EPS * fmax / hh
    a2 = d2_4(v[..., 0], v[..., 2], v[..., 4], v[..., 6], v[..., 8], h)
    b2 = d2_4(v[..., 2], v[..., 3], v[..., 4], v[..., 5], v[..., 6], hh)
    e2 = np.abs(a2 - b2) / 15.0 + 16.0 * EPS * fmax / (hh * hh)
    return f, b1, e1, b2, e2


def residual(terms, errs=None, tol=1e-6, floor=0.0, errfac=10.0):
    """Normalised residual of sum(terms)=0.

    Returns (ok, rho, scale): ok True/False/None (None: the error bar of the finite
    differences is too large for the oracle to be decisive), rho=|sum|/sum|.|."""
    terms = [float(x) for x in terms]
    s = sum(terms)
    scale = sum(abs(x) for x in terms)
    if not math.isfinite(s) or not math.isfinite(scale):
        return False, float("nan"), scale
    if scale <= floor:
        return True, 0.0, scale  # caller should mark trivial
    delta = float(sum(abs(e) for e in errs)) if errs is not None else 0.0
    rho = abs(s) / scale
    if not math.isfinite(delta):
        return None, rho, scale
    if abs(s) <= tol * scale + errfac * delta:
        if errfac * delta > 1e-2 * scale:
            return None, rho, scale
        return True, rho, scale
    return False, rho, scale


def bisect_change(f, a, b, fa=None, fb=None, rel=1e-13, maxit=200):
    """Locate a change of the (hashable / boolean) label f(x) between a and b.
    Returns (lo, hi) with f(lo)==f(a), f(hi)!=f(a) and hi-lo <= rel*max(|a|,|b|,tiny)."""
    fa = f(a) if fa is None else fa
    lo, hi = a, b
    scale = max(abs(a), abs(b), 1e-300)
    for _ in range(maxit):
        if abs(hi - lo) <= rel * scale:
            break
        mid = 0.5 * (lo + hi)
        if mid == lo or mid == hi:
            break
        if f(mid) == fa:
            lo = mid
        else:
            hi = mid
    return lo, hi


def simpson(y, x):
    """Composite Simpson on an odd number of equally spaced samples, with a Richardson
    error estimate from the every-other-point rule.  Returns (I, err)."""
    y = np.asarray(y, dtype=float)
    n = len(y)
    if n < 5 or n % 2 == 0:
        raise ValueError("simpson needs an odd number >= 5 of samples")
    h = (x[-1] - x[0]) / (n - 1)
    I1 = h / 3.0 * (y[0] + y[-1] + 4.0 * y[1:-1:2].sum() + 2.0 * y[2:-1:2].sum())
    if (n - 1) % 4 == 0:
        y2 = y[::2]
        h2 = 2 * h
        I2 = h2 / 3.0 * (y2[0] + y2[-1] + 4.0 * y2[1:-1:2].sum() + 2.0 * y2[2:-1:2].sum())
        err = abs(I1 - I2) / 15.0
    else:
        err = float("nan")
    return float(I1), float(err)


def relerr(a, b, floor=0.0):
    a = np.asarray(a, dtype=float)
    b = np.asarray(b, dtype=float)
    den = np.maximum(np.maximum(np.abs(a), np.abs(b)), floor)
    with np.errstate(all="ignore"):
        r = np.where(den > 0, np.abs(a - b) / np.where(den > 0, den, 1.0), 0.0)
    both_nan = np.isnan(a) & np.isnan(b)
    r = np.where(both_nan, 0.0, r)
    r = np.where(np.isnan(r), np.inf, r)
    return r


def maxrel(a, b, floor=0.0):
    r = relerr(a, b, floor)
    return float(np.max(r)) if r.size else 0.0

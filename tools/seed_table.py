#!/usr/bin/env python3
"""Fill meta.json 'change' / 'needs_to_manifest' of every seeded change and print the DESIGN.md table (section 13).

  tools/seed_table.py            -> updates /verif/seeded/*/meta.json, prints the markdown table"""
import json
import os

VERIF = os.path.dirname(os.path.dirname(os.path.abspath(__file__)))

# id -> (what was changed, what it needs in order to manifest, how the checks had to be strengthened to see it ("" = seen as built))
INFO = {
    "C01-sedov-p2-rho0": ("Sedov post-shock pressure uses the density coefficient rho0 instead of the pre-shock density rho0 r2^-omega",
                          "omega != 0 and shock radius != 1", ""),
    "C02-igeos-scs-gamma-reordered": ("ideal-gas Riemann, shock-contact-shock branch: right star density from the left gamma (statements reordered)",
                                      "gl != gr and a two-shock pattern", ""),
    "C03-igeos-fan-sie-gamma": ("ideal-gas Riemann: specific internal energy inside the right fan evaluated with the left gamma",
                                "gl != gr, a right rarefaction, a point inside the fan", ""),
    "C04-igeos-scr-sie-gamma": ("ideal-gas Riemann driver paints e once at the end, switching gamma at 'the middle wave' - wrong wave for shock-contact-rarefaction",
                                "gl != gr and the S-C-R pattern; only the returned energy is wrong", ""),
    "C05-suolson-argsort-twice": ("Su-Olson evaluates sorted points and 'restores' the order by applying the sorting permutation twice",
                                  "N >= 3 points whose sorting permutation is not an involution",
                                  "C05 compared only the position column of a permuted request: api.order now compares whole records, with a non-involutive permutation"),
    "C06-rmtv-lru-cache": ("RMTV heat-front start state memoised (lru_cache) on (a, b, xi_f, beta0) - gamma missing from the key",
                           "two Rmtv solvers in one interpreter that differ in gamma only",
                           "C06 histories varied only rf for Rmtv: the second parameter set of the global-using class now differs in exactly one, enumerated, constructor argument and both sets are always replayed in a fresh interpreter"),
    "C07-igeos-scs-gamma": ("ideal-gas Riemann S-C-S: right shock relations evaluated with the left gamma", "gl != gr and a two-shock pattern", ""),
    "C08-sedov-p2-rho0": ("same slip as C01-sedov-p2-rho0 (found independently): post-shock pressure dimensionally inconsistent",
                          "omega != 0 and a change of the length unit", ""),
    "C09-riemann-left-facing": ("Riemann utilities tell a left-facing from a right-facing shock by pressure and density only (velocity comparison dropped)",
                                "exactly equal thermodynamic states on both sides and colliding velocities",
                                "random states never coincide: one Riemann case in eight now has degenerate data (twins, symmetric, equal p, equal rho)"),
    "C10-sedov-r2-exponent": ("Sedov shock radius exponent 2/(j+2) instead of 2/(j+2-omega)", "omega != 0 and t != 1", ""),
    "C11-sedov-rho1-frozen": ("Sedov pre-shock density frozen at its t = 1 value by a 'compute once' refactor", "omega > 0 and t != 1", ""),
    "C12-ned-shock-speed-default-sound": ("nED solver's displacement uses the class-default sound speed (ordering slip in setup_solver)",
                                          "non-default gamma, Cv or Tref and t != 0", ""),
    "C13-kenamond3-halfspace-skip": ("Kenamond 3: shadow test skipped for points in the detonator's half space",
                                     "points hugging the obstacle between the tangent point and the plane through the centre",
                                     "seen by the Lipschitz monitor as built; a rigorous lower bound of the detour and points hugging the obstacle were added"),
    "C14-rod-bc4-flux-sign": ("Rod1D boundary condition 4: sign of the flux term of the static part", "BC4 with gamma1 != 0", ""),
    "C15-blake-case8-poisson": ("Blake parameter case 8 (G, M): wrong Poisson ratio formula", "the (shear_mod, long_mod) pair with lambda != G", ""),
    "C16-steinberg-dpdrho": ("Steinberg dP/drho: factor rho lost on one term when a parenthesis was flattened", "compressed states rho > rho_ref", ""),
    "C17-mader-tail-position": ("Mader: position of the rarefaction tail ignores the piston", "u_piston > 0", ""),
    "C18-suolson-tau-epsilon": ("Su-Olson dimensionless time scaled by epsilon twice", "epsilon != 1", ""),
    "C19-riemann2d-top-star-gamma": ("2-D Riemann: top star state built with the bottom gamma", "unequal gammas", ""),
    "C20-blake-case14-check": ("Blake (K, M) pair: admissibility check called with the wrong arguments", "K > M > 0 (a material that is not positive definite)",
                               "C20 had no non-positive-definite pairs (only C15 did): unit blake.nonpd enumerates all 15 pairs x 8 inadmissible materials"),
    "W2-C01-geneos-rcr-right-fan-gamma": ("general-EOS Riemann: positions inside the right fan of an R-C-R solution use the left gamma (helper refactor)",
                                          "GenEOS solver, R-C-R pattern, gl != gr", ""),
    "W2-C02-guderley-reflected-shock-density": ("Guderley: density jump at the reflected shock lost (assignments reordered)",
                                                "t after focus and a point behind the reflected shock", ""),
    "W2-C03-guderley-sie-rho0": ("Guderley: e = p/((gamma-1) rho) loses rho0 behind the reflected shock", "rho0 != 1, t after focus, behind the reflected shock",
                                 "C03 saw Guderley twice per quick run through the catalogue: dedicated unit over the three regions, rho0 != 1"),
    "W2-C04-geneos-rcr-right-fan-gamma": ("same slip as W2-C01 (found independently)", "GenEOS solver, R-C-R pattern, gl != gr", ""),
    "W2-C05-noh-position-rescaled": ("Noh returns position/|u0| in the position column ('distances in units of |u0|')", "Noh(u0) with |u0| != 1", ""),
    "W2-C06-sedov-stale-vacuum-radius": ("Sedov vacuum-boundary radius computed on the first call of an object only", "vacuum type, one object called at two different times",
                                         "C06 histories rarely reached a vacuum Sedov twice: unit 'reuse' calls one instance of every catalogue class at (x1,t1), (x2,t2), (x1,t1) and compares with a fresh instance; Sedov generator now draws singular and vacuum types"),
    "W2-C07-rod-bc4-beta1-lost": ("Rod1D BC4: division by beta1 lost in the series coefficients", "BC4, gamma1 != 0, beta1 != 1",
                                  "C07 and the catalogue wrote every boundary condition with unit coefficients: each boundary now carries a random (possibly negative) factor"),
    "W2-C08-rod-bc4-length-dropped": ("Rod1D BC4: rod length dropped from the steady-profile offset", "BC4, gamma1 != 0, L != 1", ""),
    "W2-C09-kenamond3-axial-early-out": ("Kenamond 3: early-out uses only the last coordinate of point and detonator", "detonator off the coordinate axes, points in a thin shadowed sliver",
                                         "C09 used random box points only: rings hugging the obstacle and fans across both shadow boundaries added (shared with C13)"),
    "W2-C10-mader-tail-tolerance-units": ("Mader: distance to the fan tail measured in x/t but compared with a length tolerance", "numerical value of t >= ~0.1 (cm/us/Mbar units)",
                                          "seen by C10 as built; the catalogue's Mader generator now draws the documentation's cm/us/Mbar unit system half of the time"),
    "W2-C11-sedov-stale-vacuum-radius": ("same mechanism as W2-C06 (found independently)", "vacuum type, one object called at two different times",
                                         "C11 built a fresh solver per time: two cases out of three now evaluate the object at another time first"),
    "W2-C12-ed-scatter-exponent-guard": ("ED solver: fast path for zero opacity exponents tests expTemp_abs where expTemp_scat is meant",
                                         "sigS != 0, expTemp_scat != 0, expDensity_scat = 0, expTemp_abs = 0",
                                         "C12 never set scattering: sigS and both scattering exponents added, the 16 zero/non-zero patterns of the four exponents are enumerated"),
    "W2-C13-kenamond2-exit-time": ("Kenamond 2: outer detonators skipped when the centre wave arrives before R/D1 (absolute exit time t_d3 + R/D1 meant)", "t_d3 < 0", ""),
    "W2-C14-rectangle-exp-guard": ("Rectangle: overflow-safe exponential form selected by k_n a instead of k_n b", "short wide rectangles b/a <= 0.15", ""),
    "W2-C15-blake-run-class-dict": ("Blake._run reads the moduli from the class-level dictionary (last constructed solver)", "another Blake constructed between construction and evaluation",
                                    "C15 constructed and evaluated immediately: two cases out of three construct other Blake solvers in between (C06 saw it as built)"),
    "W2-C16-residual-stale-e0": ("residual set_new_initial_conditions caches e0 from the previous initial state", "a re-used residual/solver object and an EOS or planar P0 with e(rho0, P0) != 0",
                                 "C16 built fresh objects only: half of the Newton cases re-use an object set up for another initial state"),
    "W2-C17-igeos-rcn-boundary-gamma": ("ideal-gas Riemann: boundary between R-C-S and R-C-R evaluated with the right gamma", "gl != gr, pl > pr, u_r - u_l in the band between the true and the wrong boundary",
                                        "random states rarely fall into the band: one Riemann case in five now lies next to a pattern boundary (offset 1e-9 ... 0.3 sound speeds); C17 IGEOS cases 240 -> 640"),
    "W2-C18-suolson-unique-sorts": ("SuOlson._run evaluates np.unique(r) and scatters back only when duplicates were found", "unsorted request without repeated positions",
                                    "C18 requested sorted stencils, C05 permuted with duplicates only: C18 scrambles every request, C05 alternates pure permutations"),
    "W2-C19-riemann2d-fan-closure-late-binding": ("2-D Riemann: per-fan helper closes over the loop variable (late binding)", "R-C-R morphology, asymmetric streams, a point inside the bottom fan", ""),
    "W2-C20-kenamond2-td3-dropped": ("Kenamond 2: t_d3 dropped from the documented lower bound of the outer detonation times", "t_d3 != 0",
                                     "C20's catalogue entry used t_d3 = 0: unit kenamond2.times varies every parameter of the inequality on both sides of the bound"),
    "W3-C01-guderley-eigen-cache-global-lambda": ("Guderley: similarity exponent memoised (lru_cache), the conversion to physical variables reads the module global that is only set on a cache miss",
                                                  "configuration X, then another configuration Y, then X again in one interpreter", ""),
    "W3-C02-sedov-rho1-first-call": ("Sedov pre-shock density computed on the first call of an object only", "omega != 0, one object called at two times", ""),
    "W3-C03-mader-zeros-like-int": ("Mader output arrays allocated like the position array (integer positions truncate the fields)", "integer position array",
                                    "NEUTRALISED: the same mechanism was found in three other solvers by the new C05 integer-position monitor and repaired at the public entry point (fix 4469e3d); on the current tree the patch no longer changes any value"),
    "W3-C04-geneos-hugoniot-memo-no-eos": ("general-EOS Riemann: Hugoniot locus memoised on (pmax, p, rho, gamma, ...) without the equation of state",
                                           "the same left/right state solved with the ideal-gas and then the JWL closure in one interpreter",
                                           "no check solved one state with two closures: C04 precedes JWL solves with an ideal-gas solve of the same states; C06 unit 'closure' replays the second solve in a fresh interpreter"),
    "W3-C05-rod-grid-identity-cache": ("Rod1D caches the spatial part of the modes while the position array is the same object (`x is not self._grid`)",
                                       "one ndarray re-filled in place between two calls", "C05 passed a new array every time: branch 'ndarray re-filled in place between two calls'"),
    "W3-C06-rod-early-mode-exit": ("Rod1D stops summing when the last mode is negligible at the requested points", "every requested point is a node of an excited mode (L/3, L/2, ... alone), early time",
                                   "random points are never nodes: C06 unit 'nodes' (rational fractions of L alone and in pairs) and 'every point alone' in the batch unit"),
    "W3-C07-kenamond2-vectorised-radial": ("Kenamond 2 vectorised: (x+y)^2 instead of x^2+y^2 for the distance from the axis", "geometry 3, points off the coordinate planes",
                                           "C07 embedded the common plane at azimuth 0 only: random azimuth (C13 and C09 saw it as built)"),
    "W3-C08-kenamond2-bt4-parenthesis": ("Kenamond 2: (t_d3 + d)/D2 instead of t_d3 + d/D2", "t_d3 != 0 and D2 != 1", ""),
    "W3-C09-kenamond1-expanded-distance": ("Kenamond 1: |x - x_d|^2 expanded into x.x - 2 x.x_d + x_d.x_d (cancellation)", "detonator far from the origin compared with the distances",
                                           "C09 translated by about the size of the configuration: half of the cases now by 1 ... 1e7 times that, allowing the rounding of the translated inputs"),
    "W3-C10-riemann-xd0-falsy": ("Riemann solvers: `xd0 or 0.5 (xmin + xmax)`", "xd0 == 0.0 exactly and a window not centred on it",
                                 "membrane never exactly at 0 and windows were images of each other: 15 % of frames at xd0 = 0, default window asymmetric, second solver's window not the image of the first"),
    "W3-C11-sedov-wrapper-ahead-shortcut": ("Planar/Cylindrical/SphericalSedov: shortcut for requests wholly ahead of the shock decided on r[0]", "convenience class, first requested point ahead of the shock, others behind",
                                            "C11 uses the general class (request order irrelevant there); C07 now sends descending/shuffled requests to wrapper and general class"),
    "W3-C12-radshock-root-box-limit": ("radiative shocks: downstream root accepted only below the hydrodynamic compression limit, replaced by a box-constrained least-squares point otherwise",
                                       "compression above (gamma+1)/(gamma-1): M0 > 7.8 at the defaults, lower for hot upstream states",
                                       "C12 stopped at M0 = 3, Tref = 300: strong radiating cases added (which exposed a negative-temperature root in the unchanged tree: fix c1e2748)"),
    "W3-C13-cylexpansion-interface-mask-gap": ("DSD cylindrical expansion vectorised with masks r < r_2 and r > r_2", "a point whose computed radius equals r_2 exactly",
                                               "C13 approached interfaces to 1e-7 but never sat on them: exactly representable points on r_1, r_2 (axis points, 3-4-5 directions) and on Kenamond 2's sphere"),
    "W3-C14-sandwich-tb-falsy": ("PlanarSandwich: `kwargs.get('TB') or self.TB`", "TB == 0 exactly",
                                 "C14 read the expected boundary data from the solver's own attributes: now from the user's parameters; heat parameters are exactly 0 with probability 0.2"),
    "W3-C15-blake-mask-by-multiplication": ("Blake: causality mask by multiplication (False * inf = nan)", "radii more than ~1000 cavity radii ahead of the front",
                                            "C15 looked ahead of the front in units of the front radius: far-field points in units of the cavity radius added"),
    "W3-C16-bbnoh-shared-default-dict": ("black-box Noh wrappers share one module-level default dictionary", "two default-constructed wrappers of different geometry",
                                         "NEUTRALISED: conflicts with fix 2c6fe29 (each solver copies its dictionary), which repaired the same mechanism found in the unchanged tree by the new C06 unit 'shared'"),
    "W3-C17-sedov-stale-vacuum-radius": ("same mechanism as W2-C06/W2-C11 (found independently)", "vacuum type, object called again at an earlier time",
                                         "C17 drew a fresh solver per case: its Sedov sequence now re-uses the object at 0.5, 0.15, 0.05 and 2 times the first time"),
    "W3-C18-suolson-surface-skip": ("Su-Olson: second integral at x = 0 skipped when exp(-tau (1 + epsilon)) < 1e-10 (the weight is exp(-tau (1 + 1/epsilon)))", "x = 0 exactly, epsilon > ~4, 23/(1+epsilon) < tau < 5",
                                    "C18 stopped at epsilon = 2: epsilon 3, 10, 20 enumerated, half of the Marshak cases at tau in 1..5 (needed an absolute noise floor and a two-spacing Marshak stencil to stay silent on the unchanged tree)"),
    "W3-C19-riemann2d-polar-order-restore": ("2-D Riemann wrapper evaluates in order of polar angle and restores the order by applying the permutation twice", "three or more points in a non-involutive order across regions",
                                             "C19 scanned in ascending order only: the 73-ray scan is repeated in a scrambled order (C06 saw it as built)"),
    "W3-C20-noh2-cylindrical-time-guard": ("Noh2: time guard replaced by (1-t)^geometry <= 0", "cylindrical geometry and t > 1",
                                           "C20 probed the guard with the default geometry only: every geometry, t = 1+1e-9, 2, 3"),
    "W4-C01-cog16-lambda0-class-attribute": ("Cog16: K0 = 16 c lambda0 a / 3 hoisted to a class attribute (always the default lambda0)", "lambda0 != 0.1", ""),
    "W4-C02-bbnoh-residual-energy-rho0": ("black-box Noh pressure residual: upstream-pressure work term divided by rho_0 instead of rho", "planar problem with initial pressure > 0",
                                          "C02 located the black-box Noh shock by 'pressure > 0' and skipped every pressurised case (also on the unchanged tree): located relative to the initial pressure; catalogue draws P0 > 0 for half of the planar problems (C16 saw it as built)"),
    "W4-C03-ned-pressure-default-sound": ("nED solver: pressure scaled with the class-default sound speed", "non-default gamma, Cv or Tref",
                                          "C03 drew the radiative-shock solvers with default parameters only: material and upstream state varied in the catalogue (C12 saw it as built)"),
    "W4-C04-ep-riemann-falsy-kwargs": ("Riemann wrappers drop falsy keyword arguments (`if val`)", "xd0 = 0", ""),
    "W4-C05-sedov-nan-fill-overwrites-input": ("Sedov at t <= 0 fills the caller's position array with NaN", "t <= 0 and a float64 ndarray",
                                               "C05 only made in-domain calls: every class is also called at t = 0 and t = -1 under the online contract monitors"),
    "W4-C06-guderley-unique-first-occurrence": ("Guderley evaluates np.unique(r, return_index=True): later occurrences of a repeated radius stay 0", "a request with a repeated position",
                                                "Guderley's turn in the batch unit came up once in four quick runs: costly classes outside their turn still get a three-point request with two points repeated"),
    "W4-C07-newton-loop-not-rearmed": ("Newton solver: set_new_initial_guess no longer re-arms the iteration", "a second solve_jump_conditions() on one solver object",
                                       "C07 solved once per object: a second solve from another starting point is compared with Noh as well (C16 saw it as built)"),
    "W4-C08-mader-piston-sound-ratio": ("Mader: (u_piston - u_cj / c_cj) instead of (u_piston - u_cj) / c_cj", "u_piston != 0", ""),
    "W4-C09-geneos-rcr-right-fan-sound-speed": ("same slip as W2-C01 (found independently)", "GenEOS solver, R-C-R pattern, gl != gr", ""),
    "W4-C10-ehep-class-level-path-cache": ("EHEP region polygons cached in a class-level dictionary shared by all solver objects", "a second EHEP object with other D, up or xtilde after a first one was evaluated",
                                           "C10 ends inconclusive (exit 2: its EHEP unit no longer finds region I), C06 reports it since EHEP joined the history pool as a global-using class"),
    "W4-C11-sedov-omega3-exponent-sign": ("Sedov omega3 branch: sign of an exponent flipped in a de-duplication", "|geometry (2 - gamma) - omega| <= 1e-4", ""),
    "W4-C12-ned-flux-sigma-a": ("nED radiation flux: diffusive term divided by sigma_a instead of sigma_t", "sigS != 0", ""),
    "W4-C13-kenamond1-int-td-truncation": ("Kenamond 1: burn-time array allocated with the dtype of t_d", "t_d given as a Python/NumPy integer",
                                           "every generator passed floats: C05 builds each class with an integer-valued parameter as int and as float and compares the records"),
    "W4-C14-hutchens1-allclose-grid-cache": ("Hutchens1 caches the spatial modes while the new grid is np.allclose to the cached one", "one object, a second grid within 1e-5 of the first",
                                             "C06 re-used objects on unrelated grids: a grid 3e-6 away from the first one is compared with a fresh instance; C14 takes dT/dr from two one-point calls 1e-6 b apart"),
    "W4-C15-blake-grid-cache-shape-key": ("Blake caches grid-dependent arrays keyed on the shape of the first grid", "one object, a second grid with as many points as the first",
                                          "C15's first request had 8 points and none of the later ones: a second 8-point grid is compared with a fresh solver (C06 saw it as built)"),
    "W4-C16-newton-relative-tolerance-scale": ("Newton stopping measures divided by max(1, |x|) with x = (rho, e, D) of mixed units", "large-magnitude states with small density (rarefied gas in cgs)", ""),
    "W4-C17-ehep-region4-corner": ("EHEP region IV closed with the boundary-C point on x = xmax", "(2up + D/2) tmax - 1.5 xtilde < xmax < (2up + D/2) tmax, late times, x near xmax",
                                   "the symptom (all-zero records inside the products) was absorbed by the recorded finding about region II's corner, which matched by branch only: that finding now carries the window predicate of its own mechanism and C20 reports this one; C17 itself uses the default window and stays silent"),
    "W4-C18-suolson-searchsorted-front": ("Su-Olson driver skips points beyond np.searchsorted(x, z_front) (assumes ascending positions)", "an unsorted request with points beyond 16 diffusion lengths",
                                          "C18 scrambled requests that were entirely behind or entirely ahead of the wave, with one fixed permutation: a mixed profile, and a permutation that depends on the request"),
    "W4-C19-riemann2d-radians-feedback": ("2-D Riemann: states converted to radians in place and fed back through the wrapper's attributes", "one object evaluated twice, non-zero flow angle", ""),
    "W4-C20-kenamond3-frobenius-norm-guard": ("Kenamond 3: inert-region guard on np.linalg.norm of the whole point list", "a list that mixes valid points and points inside the obstacle",
                                              "C20 probed the guard with interior points only: interior points among valid ones, judged record by record"),
    "W5-C01-noh-density-dtype-of-rho0": ("Noh density array created with numpy.full(shape, rho0): takes the dtype of the parameter",
                                         "rho0 given as a Python int (any whole number), curvilinear geometry ahead of the shock",
                                         "every generator drew floats (C05's int-typed constructor monitor saw it as built): catalogue scale parameters are whole numbers given as int in one draw of four, C01 schedules an all-int repetition of every class"),
    "W5-C02-piston-ey-factoring": ("elastic-plastic piston: energy behind the precursor 'factored' so that the 2 of the energy jump multiplies the Gruneisen gamma",
                                   "Gruneisen gamma != 2", ""),
    "W5-C03-bbnoh-lazy-pressure": ("black-box Noh: post-shock pressure computed lazily in _run and kept; not reset when the jump conditions are solved again",
                                   "one object evaluated, then solved again for another state (EOS setter, new starting guess), then evaluated",
                                   "C03 solved every object once: second solve after an evaluation (co-volume / sound speed through the EOS setter, class-default starting guess)"),
    "W5-C05-kenamond1-z-view-shift": ("Kenamond 1 vectorised: the z column of the request is shifted in place (a view) and returned as position_z",
                                      "geometry 3 and a detonator with z != 0", ""),
    "W5-C06-ehep-hoisted-else": ("EHEP: the 'point in no region' branch hoisted in front of the loop as an initialisation",
                                 "a point in no polygon (x <= 0, x >= xmax, x = xtilde early) after a point with a non-vacuum state in the same request", ""),
    "W5-C07-sandwich-tb-or-default": ("planar sandwiches: kwargs.get('TB') or self.TB (same idiom as W3-C14, found independently, three classes)",
                                      "TB == 0 exactly", ""),
    "W5-C08-blake-class-dict-moduli": ("Blake._run reads the elastic constants from the class-level dictionary that every constructor updates",
                                       "two Blake objects with different constants alive, the first evaluated after the second was constructed",
                                       "C08 built and evaluated one unit system after the other: in half of the cases the original problem is evaluated again after the scaled solver was built and used (C06 and C15 saw it as built)"),
    "W5-C09-kenamond2-td-inplace-shift": ("Kenamond 2: detonation times shifted in place to be relative to t_d3 (numpy.asarray does not copy a float64 array)",
                                          "t_d passed as a float64 ndarray, t_d[2] != 0, a second evaluation that shares the array",
                                          "every check passed lists and tuples: the harness hands sequence-valued constructor parameters over as float64 arrays in half of the constructions"),
    "W5-C13-base-last-request-cache": ("ExactSolver.__call__ remembers the last request and its solution, keyed on the caller's own array",
                                       "one object called twice in a row at the same time with the same array object whose contents were changed in place",
                                       "C13 built a new array for every request (C05's re-filled buffer monitor saw it as built): in half of the cases the harness keeps one work array per solver object and refills it in place"),
    "W5-C14-sandwichhalf-early-exit": ("PlanarSandwichHalf gets its own series loop that stops 'once converged' (term negligible at the requested points)",
                                       "a request all of whose points are nodes of one low mode (single-point probes at x/L = 2/3, 2/5, 4/5), early time",
                                       "C14's stencils were sent as one request: the heat equation is also evaluated from single-point requests centred on rational x/L (C06 saw it as built)"),
    "W5-C17-guderley-reflected-density-jump": ("Guderley: density jump across the reflected shock inverted in a tidy-up of the jump block",
                                               "after the collapse time, behind the reflected shock",
                                               "C17 judged Guderley's positivity only: converging and reflected shocks located from the fields and required to be compressive (C02 saw it as built)"),
    "W5-C20-sedov-np-interp-clamp": ("Sedov: scipy interp1d (bounds error) replaced by numpy.interp (clamps)",
                                     "a request with a negative radius and t > 0",
                                     "C20 sent negative radii to Blake only: Sedov in every geometry, negative radii alone and among valid points"),
}


def main():
    rows = []
    base = os.path.join(VERIF, "seeded")
    for sid in sorted(os.listdir(base)):
        mp = os.path.join(base, sid, "meta.json")
        if not os.path.exists(mp):
            continue
        m = json.load(open(mp))
        info = INFO.get(sid)
        if info:
            m["change"], m["needs_to_manifest"], m["strengthening"] = info
            m["breaks_property"] = m.get("property")
            with open(mp, "w") as f:
                json.dump(m, f, indent=1)
        det, old = {}, {}
        for k, v in m.get("checks", {}).items():
            if v.get("stale"):
                c, sd = k.split("@seed")
                old.setdefault(c, []).append("+" if v["rc"] == 1 else ("?" if v["rc"] not in (0, 1) else "-"))
                continue
            c, sd = k.split("@seed")
            det.setdefault(c, []).append("%s" % ("+" if v["rc"] == 1 else ("?" if v["rc"] not in (0, 1) else "-")))
        dets = " ".join("%s[%s]" % (c, "".join(v)) for c, v in sorted(det.items()))
        if old:
            dets += " (earlier state of the checks: " + " ".join("%s[%s]" % (c, "".join(v)) for c, v in sorted(old.items())) + ")"
        if m.get("neutralised"):
            dets = "(not live on the current tree)"
        rows.append((sid, m.get("property"), m.get("change", ""), m.get("needs_to_manifest", ""), dets, m.get("strengthening", ""), m.get("confirmed")))
    print("| seeded change | breaks | what was changed | needs | quick checks (one sign per workload seed: + caught, - silent) | strengthening it took |")
    print("|---|---|---|---|---|---|")
    for r in rows:
        print("| %s | %s | %s | %s | %s | %s |" % (r[0], r[1], r[2], r[3], r[4], r[5] or "caught as built"))
    print("\n%d seeded changes, %d confirmed" % (len(rows), sum(1 for r in rows if r[6])))


if __name__ == "__main__":
    main()

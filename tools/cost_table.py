#!/usr/bin/env python3
"""Print the table of DESIGN.md section 12 (wall time, evaluations, evaluations per monitor)
from the evidence files of the last run with evidence.

    /venv/bin/python tools/cost_table.py
"""
import glob
import json
import os

HERE = os.path.dirname(os.path.dirname(os.path.abspath(__file__)))


def main():
    print("| check | tier/seed | wall | evaluations | distinct non-trivial | classes constructed | evaluations per monitor |")
    print("|-------|-----------|------|-------------|----------------------|---------------------|------------------------------------------------|")
    for f in sorted(glob.glob(os.path.join(HERE, "evidence", "C*.json"))):
        e = json.load(open(f))
        c = e["coverage"]
        mons = []
        for m, v in sorted(c["per_monitor"].items(), key=lambda kv: -kv[1]["evals"]):
            mons.append("%s %d" % (m, v["evals"]))
        print("| %s | %s/%s | %.0f s | %d | %d | %d | %s |" % (
            e["property_id"], e["tier"], e["seed"], e["wall_s"], c["evaluations"], c["distinct_nontrivial"],
            len(c.get("constructors_observed", {})), "; ".join(mons[:8]) + (" ..." if len(mons) > 8 else "")))


if __name__ == "__main__":
    main()

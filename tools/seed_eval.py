#!/usr/bin/env python3
"""Confirm and evaluate one seeded property-breaking change.

  tools/seed_eval.py <seed-id> --src /tmp/wt/C01 --property C01 [--checks C01,C03] [--full-suite] [--tests test_cog.py,...]

Steps (all in a scratch worktree of /repo's HEAD outside /repo and /verif, removed afterwards):
  1. demo.py on the unchanged tree            -> must exit 0
  2. git apply patch.diff; demo.py again      -> must exit non-zero
  3. the repository's tests (selected files or the full suite) with the patch -> must pass (baseline always-fail ignored)
  4. the registered quick checks (EXACTPACK_REPO=<scratch>, --no-evidence) -> which of them report a VIOLATION
Writes /verif/seeded/<seed-id>/{patch.diff, demo.py, notes.md, meta.json}."""
import argparse
import json
import os
import shutil
import subprocess
import sys
import time

VERIF = os.path.dirname(os.path.dirname(os.path.abspath(__file__)))
PY = "/venv/bin/python"


def sh(cmd, cwd=None, env=None, timeout=None):
    p = subprocess.run(cmd, shell=True, cwd=cwd, env=env, capture_output=True, text=True, timeout=timeout)
    return p.returncode, p.stdout + p.stderr


def recheck(a):
    """run the quick checks again against the stored patch (scratch worktree of /repo's HEAD, removed afterwards)"""
    dst = os.path.join(VERIF, "seeded", a.seed_id)
    meta = json.load(open(os.path.join(dst, "meta.json")))
    scratch = "/tmp/seedchk_%s" % a.seed_id
    sh("git -C /repo worktree remove --force %s" % scratch)
    rc, out = sh("git -C /repo worktree add -q --detach %s HEAD" % scratch)
    assert rc == 0, out
    try:
        rc, out = sh("git apply --whitespace=nowarn %s" % os.path.join(dst, "patch.diff"), cwd=scratch)
        if rc != 0:
            meta["recheck_error"] = "patch no longer applies to /repo HEAD: " + out[-300:]
            print(a.seed_id, meta["recheck_error"])
        else:
            checks = a.checks.split(",") if a.checks else sorted(set([meta["property"]] + [k.split("@")[0] for k in meta.get("checks", {})]))
            # results of checks that are not run again are kept (they were obtained with an earlier state of /verif)
            meta["checks"] = {k: dict(v, stale=True) for k, v in meta.get("checks", {}).items() if k.split("@")[0] not in checks}
            for c in checks:
                for seed in a.seeds.split(","):
                    t0 = time.time()
                    rc, out = sh("cd %s && EXACTPACK_REPO=%s ./check %s --tier quick --seed %s --no-evidence" % (VERIF, scratch, c, seed), timeout=3600)
                    viol = [l for l in out.split("\n") if l.startswith("VIOLATION")]
                    mons = sorted(set(l.split("monitor=")[1].split(" measure=")[0].split(" tol=")[0][:110] for l in out.split("\n") if l.strip().startswith("monitor=")))
                    meta["checks"]["%s@seed%s" % (c, seed)] = dict(rc=rc, violations=len(viol), monitors=mons[:6], wall_s=round(time.time() - t0, 1))
            meta["detected_by"] = sorted(set(k.split("@")[0] for k, v in meta["checks"].items() if v["rc"] == 1))
            meta["rechecked"] = dict(repo_head=sh("git -C /repo rev-parse --short HEAD")[1].strip(), verif_head=sh("git -C %s rev-parse --short HEAD" % VERIF)[1].strip(),
                                     when=time.strftime("%Y-%m-%dT%H:%MZ", time.gmtime()))
            meta["ran"] = [r for r in meta.get("ran", []) if "./check" not in r] + [
                "EXACTPACK_REPO=<patched scratch> ./check %s --tier quick --seed %s -> rc %d, %d VIOLATION line(s)" % (k.split("@")[0], k.split("seed")[1], v["rc"], v["violations"])
                for k, v in meta["checks"].items()]
    finally:
        sh("git -C /repo worktree remove --force %s" % scratch)
        shutil.rmtree(scratch, ignore_errors=True)
    with open(os.path.join(dst, "meta.json"), "w") as f:
        json.dump(meta, f, indent=1)
    print(a.seed_id, "detected_by", meta.get("detected_by"), {k: (v["rc"], v["violations"]) for k, v in meta.get("checks", {}).items()})
    return 0


def main():
    ap = argparse.ArgumentParser()
    ap.add_argument("seed_id")
    ap.add_argument("--src", default=None)
    ap.add_argument("--property", default=None)
    ap.add_argument("--checks", default=None)
    ap.add_argument("--tests", default=None)
    ap.add_argument("--full-suite", action="store_true")
    ap.add_argument("--seeds", default="0")
    ap.add_argument("--recheck", action="store_true", help="seed already confirmed and stored under /verif/seeded/<id>: only run the checks again")
    a = ap.parse_args()
    if a.recheck:
        return recheck(a)
    sd = os.path.join(a.src, "_seed")
    scratch = "/tmp/seedchk_%s" % a.seed_id
    sh("git -C /repo worktree remove --force %s" % scratch)
    rc, out = sh("git -C /repo worktree add -q --detach %s HEAD" % scratch)
    assert rc == 0, out
    meta = dict(seed_id=a.seed_id, property=a.property, repo_head=sh("git -C /repo rev-parse --short HEAD")[1].strip(), ran=[])
    env = dict(os.environ, PYTHONPATH=scratch, MPLBACKEND="Agg")
    try:
        os.makedirs(os.path.join(scratch, "_seed"), exist_ok=True)
        shutil.copy(os.path.join(sd, "demo.py"), os.path.join(scratch, "_seed", "demo.py"))
        demo = "cd %s && %s _seed/demo.py" % (scratch, PY)
        rc0, out0 = sh(demo, env=env, timeout=1800)
        meta["demo_unchanged_rc"] = rc0
        meta["ran"].append(demo + "  (unchanged tree) -> rc %d" % rc0)
        rc, out = sh("git apply --whitespace=nowarn %s" % os.path.join(sd, "patch.diff"), cwd=scratch)
        meta["patch_applies"] = rc == 0
        if rc != 0:
            meta["error"] = out[-500:]
        rc1, out1 = sh(demo, env=env, timeout=1800)
        meta["demo_patched_rc"] = rc1
        meta["demo_patched_tail"] = out1[-600:]
        meta["ran"].append(demo + "  (patched tree) -> rc %d" % rc1)
        meta["files_changed"] = sh("git diff --stat -- exactpack | cat", cwd=scratch)[1].strip().split("\n")
        # tests
        if a.full_suite:
            tcmd = "cd %s && %s -m pytest -q -p no:cacheprovider --timeout=900 -n 12 2>&1 | tail -4" % (scratch, PY)
        else:
            files = a.tests.split(",") if a.tests else []
            tcmd = "cd %s && %s -m pytest -q -p no:cacheprovider --timeout=900 -n 8 %s 2>&1 | tail -4" % (
                scratch, PY, " ".join("exactpack/tests/" + f for f in files)) if files else None
        if tcmd:
            t0 = time.time()
            rc, out = sh(tcmd, env=env, timeout=3600)
            meta["tests_cmd"] = tcmd
            meta["tests_tail"] = out.strip().split("\n")[-3:]
            fails = [l for l in out.split("\n") if l.startswith("FAILED")]
            meta["tests_failed"] = [f for f in fails if "test_riemLeegen_region_boundaries" not in f]
            meta["tests_pass"] = ("passed" in out) and not meta["tests_failed"] and ("error" not in out.split("\n")[-2].lower())
            meta["ran"].append(tcmd + " -> %s (%.0f s)" % (meta["tests_tail"][-1] if meta["tests_tail"] else "?", time.time() - t0))
        # checks
        checks = a.checks.split(",") if a.checks else [a.property]
        if a.checks == "all":
            checks = ["C%02d" % i for i in range(1, 21)]
        meta["checks"] = {}
        for c in checks:
            for seed in a.seeds.split(","):
                t0 = time.time()
                rc, out = sh("cd %s && EXACTPACK_REPO=%s ./check %s --tier quick --seed %s --no-evidence" % (VERIF, scratch, c, seed), timeout=3600)
                viol = [l for l in out.split("\n") if l.startswith("VIOLATION")]
                mons = sorted(set(l.split("monitor=")[1].split(" branch=")[0] for l in out.split("\n") if l.strip().startswith("monitor=")))
                meta["checks"]["%s@seed%s" % (c, seed)] = dict(rc=rc, violations=len(viol), monitors=mons[:8], wall_s=round(time.time() - t0, 1))
                meta["ran"].append("EXACTPACK_REPO=<patched scratch> ./check %s --tier quick --seed %s -> rc %d, %d VIOLATION line(s)" % (c, seed, rc, len(viol)))
        meta["detected_by"] = sorted(set(k.split("@")[0] for k, v in meta["checks"].items() if v["rc"] == 1))
    finally:
        sh("git -C /repo worktree remove --force %s" % scratch)
        shutil.rmtree(scratch, ignore_errors=True)
    dst = os.path.join(VERIF, "seeded", a.seed_id)
    os.makedirs(dst, exist_ok=True)
    for f in ("patch.diff", "demo.py", "notes.md"):
        if os.path.exists(os.path.join(sd, f)):
            shutil.copy(os.path.join(sd, f), os.path.join(dst, f))
    notes = open(os.path.join(sd, "notes.md")).read() if os.path.exists(os.path.join(sd, "notes.md")) else ""
    meta["breaks_property"] = a.property
    meta["needs_to_manifest"] = "see notes.md"
    meta["confirmed"] = bool(meta.get("patch_applies") and meta.get("demo_unchanged_rc") == 0 and meta.get("demo_patched_rc") not in (0, None)
                             and meta.get("tests_pass", None) is not False)
    with open(os.path.join(dst, "meta.json"), "w") as f:
        json.dump(meta, f, indent=1)
    print(json.dumps({k: meta.get(k) for k in ("seed_id", "confirmed", "demo_unchanged_rc", "demo_patched_rc", "tests_pass", "tests_tail", "detected_by", "checks")}, indent=1))
    return 0


if __name__ == "__main__":
    sys.exit(main())

NOTES = ("Every check is ./check <id>: 16 fresh worker processes import ExactPack from the current "
         "working tree of $EXACTPACK_REPO (default /repo), run a seeded workload (VERIF_SEED) and let "
         "monitors observe the real solvers. exit 0 held / 1 VIOLATION / 2 inconclusive. "
         "known_findings.json lists recorded and repaired genuine defects.")
_T = "trusted: numpy/scipy, the oracle toolkit in rtm/oracles.py, the tolerances stated in DESIGN.md section 3"
CHECKS = {
 "C16": dict(
   text="Held on the sampled EOS constants/states/initial conditions: icontract closure contracts on the real e()/P() methods, analytic derivatives and Jacobians against 4th-order differences with error bars, Newton results against the documented jump conditions. Sampling, not proof.",
   design_ref="5/C16", note=_T + "; 'physically reasonable guess' = jumps within 20 % of a scalar reference root",
   technique="runtime contracts (icontract) + finite-difference reference oracle on sampled states"),
}
CHECKS["C15"] = dict(
   text="Held on the sampled materials (15 parameter pairs each, incl. boundary, non-positive-definite and mutually inconsistent pairs) and on the sampled (cavity, density, pressure, time, radius) cases: elastic-moduli identities, wave equation by differences of the returned displacement, cavity-wall and front conditions, strain/stress/density relations. Sampling, not proof.",
   design_ref="5/C15", note=_T, technique="reference-relation monitors on recorded public calls (finite-difference PDE residual, algebraic identities)")
CHECKS["C13"] = dict(
   text="Held on the sampled detonator layouts/points (2-D and 3-D; interface, shadow-boundary and antipodal points included): detonator values, causality bounds, two-point Lipschitz bound, continuity across interfaces, eikonal equation by differences. Sampling, not proof.",
   design_ref="5/C13", note=_T + "; near the Kenamond3 antipode values are only accurate to sqrt(eps) R/D (arccos formulation) and the monitors allow 1e-7 R/D",
   technique="first-arrival invariants (Lipschitz/eikonal/continuity) monitored on recorded public calls")
CHECKS["C04"] = dict(
   text="Held on the sampled left/right states (all four wave patterns incl. S-C-R/R-C-S with a velocity difference, unequal gammas, JWL sets for the general solver), membrane positions, times and windows: integral balance of mass, momentum, energy from the returned fields by piecewise Simpson plus an independent uniform-grid balance. Sampling, not proof.",
   design_ref="5/C04", note=_T + "; IGEOS tolerance 1e-8 of the summed magnitudes (measured 7e-12), GenEOS resolution-based",
   technique="conservation monitor over recorded public calls (quadrature of returned fields vs flux balance)")
CHECKS["C09"] = dict(
   text="Held on the sampled state pairs/boosts/layouts: each Riemann problem against its mirror image and boosted copies (incl. boosts that put one state at rest), burn-time fields under the rigid motions that preserve each problem's symmetry. Sampling, not proof.",
   design_ref="5/C09", note=_T + "; IGEOS star pressure is only accurate to bisect's absolute xtol (propagated acoustically into the tolerance)",
   technique="metamorphic relation monitor on pairs of recorded public calls")
CHECKS["C03"] = dict(
   text="Held on every public call of the workload (every thermodynamic class and geometry wrapper with random admissible parameters, unequal-gamma and JWL Riemann problems in all patterns, three piston models/regions, black-box Noh with each admissible EOS, radiative-shock profiles on their nodes): the declared EOS relation evaluated by an icontract postcondition on ExactSolver.__call__. Sampling, not proof.",
   design_ref="5/C03", note=_T + "; relation table written from the docstrings; resolution-based slack for interpolating solvers computed from the solver's own tables",
   technique="online contract (icontract postcondition) at the public call boundary")
CHECKS["C05"] = dict(
   text="Held on every public solver class found by walking exactpack.solvers (each built with random admissible parameters, N in {1,2,3,17,1000}, five container types, permuted and permuted+duplicated points with whole records compared): record count/order, positions first and unmodified, caller's array untouched, standard names, container equivalence, exact CSV round trip, ValueError for unknown/missing constructor parameters. Exact comparisons; the universal part is an icontract postcondition on ExactSolver.__call__. Sampling over inputs, exhaustive over classes.",
   design_ref="5/C05", note=_T + "; alias list for standard names in rtm/props/c05.py; plotting is not exercised",
   technique="online contract (icontract postcondition) at the public call boundary + differential container driver")
CHECKS["C01"] = dict(
   text="Held on the sampled (parameters, r, t) probes: normalised residuals of mass, momentum and energy (with the documented heat-flux term) from finite differences of fields obtained through the public call, for all twenty Coggeshall solutions, Noh (both sides), Noh2/Noh2Cog, EHEP regions I-V, fans of both Riemann solvers, Sedov interior (outside the solver's truncated core) and Guderley before/after reflection. Sampling, not proof; known genuine violations (Cog13/17/20 energy) are listed in known_findings.json.",
   design_ref="5/C01", note=_T + "; derivative error bars by Richardson; inconclusive probes are not counted as held",
   technique="PDE-residual monitor over recorded public calls (finite-difference oracle with error bars)")
CHECKS["C02"] = dict(
   text="Held on the sampled parameter sets/times: fronts located on the returned fields by bisection (at t and t -/+ dt), one-sided states read next to them, mass/momentum/energy jumps normalised by the summed term magnitudes; contacts, SDRZ flux constancy on table nodes, Mader CJ state, EHEP detonation front (with CJ heat release), Guderley incoming/reflected shocks and every other discontinuity in its density, RMTV isothermal shock. Sampling, not proof; Cog20's shock and Guderley's inner-core breakdown are listed known findings.",
   design_ref="5/C02", note=_T + "; tolerance classes per solver (closed form 1e-8 ... interpolating 1e-4) with the measured accuracy of each solver's root finder",
   technique="jump-condition monitor over recorded public calls (discontinuity locator + Rankine-Hugoniot oracle)")
CHECKS["C07"] = dict(
   text="Held on the sampled common parameter sets: IGEOS vs GenEOS (fields, wave speeds, pattern), Noh vs Cog19 vs black-box Noh, Noh2 vs Noh2Cog vs Cog1, all 64 constructible geometry wrappers vs their general class, sandwiches vs rod, rod BC3 vs mirrored BC4, Kenamond 2-D vs 3-D. Sampling, not proof; NohBlackBoxEos ignoring its geometry keyword is a listed known finding.",
   design_ref="5/C07", note=_T, technique="differential monitor on pairs of recorded public calls (independent routes)")
CHECKS["C08"] = dict(
   text="Held on the sampled (parameters, scale factors) pairs for 31 solver classes: every input multiplied according to its dimension vector, every output compared with its own scale factor times the original. Sampling, not proof; known findings: Riemann absolute bisect tolerance at tiny pressure numbers, Cog20 shock location of dimension length x time.",
   design_ref="5/C08", note=_T + "; dimension table DIMS in rtm/props/c08.py; Noh2/Guderley have hard-wired time units",
   technique="metamorphic relation monitor (unit rescaling) on pairs of recorded public calls")
CHECKS["C10"] = dict(
   text="Held on the sampled parameters/time ratios/similarity coordinates: x/t similarity (both Riemann solvers, Noh, Cog19, EHEP region I, Mader with scaled cell grid), Sedov exponents on node-aligned grids, Guderley power-law prefactors and lambda read back from the solver's two-point ratios. Sampling, not proof.",
   design_ref="5/C10", note=_T, technique="metamorphic relation monitor (similarity map) on pairs of recorded public calls")
CHECKS["C11"] = dict(
   text="Held on the sampled (geometry, gamma, omega, rho0, E0, t) cases whose quadrature is resolvable on the solver's 3001 nodes: blast energy and enclosed mass by Simpson on node-aligned radii (three-level convergence check), undisturbed state ahead of the front. Unresolvable thin-shell cases are counted as inconclusive. Sampling, not proof.",
   design_ref="5/C11", note=_T + "; the truncated inner core's returned mass/kinetic energy is added to the tolerance",
   technique="conservation monitor over a recorded public call (quadrature of returned fields)")
CHECKS["C12"] = dict(
   text="Held on the sampled (M0, gamma, Cv, Tref, rho0, cross-section, closure) profiles that the constructors produce: time translation through the public call with the sound speed computed from the user's parameters, constancy of mass/momentum/energy flux along the profile attributes, equilibrium end states, the downstream state equal to the compressed root of the jump conditions (reference by continuation from the hydrodynamic jump); absorption and scattering coefficients with all 16 zero/non-zero patterns of the four opacity exponents. Sampling, not proof; ED's last profile point is a listed known finding; FLD closures are decided on mass flux, translation and end states only.",
   design_ref="5/C12", note=_T, technique="trace-invariant monitor on solver profile attributes + metamorphic time-translation relation on public calls")
CHECKS["C14"] = dict(
   text="Held on the sampled parameter sets: heat-equation residual, declared boundary operators, t->0+ initial profile, t->infinity static solution for Rod1D BC1-BC4 and the three sandwiches, Rectangle (PDE, top/bottom, initial data), Hutchens1 (PDE, surface, initial data). Sampling, not proof; five genuine defects (Rod1D Robin, Hutchens1 r=0, Hutchens2 accumulator, Rectangle sides, CylindricalSandwich) are listed known findings and are re-observed on every run.",
   design_ref="5/C14", note=_T + "; series tolerances from the first omitted term; aspect ratios that overflow sinh/I0 are left to C20",
   technique="PDE/boundary-operator residual monitor over recorded public calls (finite-difference oracle with error bars)")
CHECKS["C18"] = dict(
   text="Held on the sampled (opacity, alpha/epsilon, boundary temperature, x, tau) probes: residuals of both dimensionless equations from finite differences of the returned temperatures, Marshak condition at x=0 by a one-sided stencil, decay 10-30 mean free paths ahead of the wave, ordering 0<=v<=u<=1. Sampling, not proof; tolerance 1e-4 (the solver's oscillatory quadrature is good to ~1e-6..1e-5).",
   design_ref="5/C18", note=_T, technique="PDE-residual monitor over recorded public calls (finite-difference oracle with error bars)")
CHECKS["C19"] = dict(
   text="Held on the sampled supersonic state pairs (flow angles 0, equal and different, unequal gammas): pointwise consistency of u,v,M,c,e; slip-line balance; oblique-shock density ratio, downstream Mach number, turning angle and shock position located on the returned fields; fan isentropy and total enthalpy. Sampling, not proof; the wrong Prandtl-Meyer function (fan turning, ray placement) is a listed known finding; two shock-placement defects for non-zero flow angles were repaired.",
   design_ref="5/C19", note=_T, technique="reference-relation monitor (oblique-shock / Prandtl-Meyer theory) over recorded public calls, wave positions located on the returned fields")
CHECKS["C17"] = dict(
   text="Held on every public call of the workload for the listed solvers (positivity contract as an icontract postcondition on ExactSolver.__call__) and on the sampled fine point sequences: compressive shocks, monotone fans (both Riemann solvers, Mader's Taylor wave incl. grids whose cell straddles its tail, EHEP region I, SDRZ), values bounded by the adjacent constant states (Mader transition cell, GenEOS smeared cells, points exactly on the piston's fronts), Su-Olson ordering and monotonicity. Sampling, not proof.",
   design_ref="5/C17", note=_T + "; Su-Olson comparisons on energy densities with the solver's 5e-5 absolute accuracy",
   technique="online contract (icontract postcondition) at the public call boundary + sequence monitors (monotonicity/bounds) on recorded calls")
CHECKS["C20"] = dict(
   text="The restriction catalogue (about 80 documented restrictions x violating/boundary values, plus black-box Noh's initial-condition checks) is executed exhaustively on every run and repeated with random valid values for the other parameters; all 15 Blake pairs from 8 non-positive-definite materials and the Kenamond 2 time-ordering inequality with every parameter varied on both sides of the bound are enumerated/sampled; documented out-of-domain requests must raise or return no entirely-finite record; every in-domain call of a sweep over all solver classes must return finite fields (icontract postcondition on ExactSolver.__call__). Enumeration of the catalogue, sampling of the rest; unenforced restrictions and in-domain NaN mechanisms that were not repaired are listed known findings.",
   design_ref="5/C20", note=_T + "; the catalogue RESTR in rtm/props/c20.py was written from the pinned tree's docstrings, parameter help and messages",
   technique="fault-catalogue execution (constructor/domain outcomes observed) + online finiteness contract at the call boundary")
CHECKS["C06"] = dict(
   text="Held on the sampled histories: every repeated (class, constructor arguments, configuration, points, t) inside long mixed histories of 18 solver families carries the same bit-exact digest (each history holds two parameter sets of one global-using class differing in exactly one enumerated constructor argument), a sample of events per history (always those two) equals its first-call-in-a-fresh-interpreter reference bit for bit, and values are unchanged (1e-10; documented grid resolution for Sedov/Mader) under permutation, subsets, supersets and duplicates of the request; one instance of every catalogue class called at (x1,t1),(x2,t2),(x1,t1) agrees bit for bit with itself and with a fresh instance. Sampling of histories, not enumeration; threads are out of scope.",
   design_ref="5/C06", note=_T + "; fresh references come from one new interpreter per sampled event (python -m rtm.fresh)",
   technique="offline checker over recorded call histories (bit-exact digests, fresh-process replay) + batch-permutation differential monitor")
NOT_YET = {}

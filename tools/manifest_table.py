NOTES = ("Every check is ./check <id>: 16 fresh worker processes import ExactPack from the current "
         "working tree of $EXACTPACK_REPO (default /repo), run a seeded workload (VERIF_SEED) and let "
         "monitors observe the real solvers. exit 0 held / 1 VIOLATION / 2 inconclusive. "
         "known_findings.json lists recorded and repaired genuine defects.")
_T = "trusted: numpy/scipy, the oracle toolkit in rtm/oracles.py, the tolerances stated in DESIGN.md section 3"
CHECKS = {
 "C16": dict(
   text="Held on the sampled EOS constants/states/initial conditions: icontract closure contracts on the real e()/P() methods, analytic derivatives and Jacobians against 4th-order differences with error bars, Newton results against the documented jump conditions. Sampling, not proof.",
   design_ref="5/C16", note=_T + "; 'physically reasonable guess' = jumps within 20 % of a scalar reference root",
   technique="runtime contracts (icontract) + finite-difference reference oracle on sampled states"),
}
NOT_YET = {}

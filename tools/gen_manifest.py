#!/usr/bin/env python3
"""Regenerates MANIFEST.json from the table below (kept in one place so that the
manifest is always valid and in step with the property modules that exist)."""
import json, os, sys
HERE = os.path.dirname(os.path.dirname(os.path.abspath(__file__)))
sys.path.insert(0, HERE)
from tools.manifest_table import CHECKS, NOT_YET, NOTES

props = [json.loads(l) for l in open(os.path.join(HERE, "properties.jsonl"))]
ids = [p["id"] for p in props]
checks = []
for pid in ids:
    if pid not in CHECKS:
        continue
    c = CHECKS[pid]
    checks.append(dict(
        property_id=pid,
        quick_cmd="./check %s --tier quick" % pid,
        thorough_cmd="./check %s --tier thorough" % pid,
        evidence_file="evidence/%s.json" % pid,
        replay_cmd_template="./check %s --replay {path}" % pid,
        engine="rtm",
        level_claimed=dict(category="exploration", text=c["text"], design_ref=c["design_ref"]),
        level_note=c["note"],
        technique=c["technique"]))
na = [dict(property_id=pid, reason=NOT_YET.get(pid, "check not built yet (work in progress; the property is addressable by runtime monitoring, see DESIGN.md section 5)")) for pid in ids if pid not in CHECKS]
man = dict(
    version=1,
    setup_cmd="./setup.sh",
    hooks=dict(guard="EXACTPACK_VERIF",
               enable="no source hooks: monitors attach at the public call boundary from the harness (PYTHONPATH=/repo, EXACTPACK_VERIF=1 set by ./check for its worker processes)",
               baseline_off_cmd="cd /repo && env -u EXACTPACK_VERIF /venv/bin/python -m pytest -q -p no:cacheprovider --timeout=900 -n 16",
               source_commits=[], add_only=True),
    engines=[dict(name="rtm", path="rtm/", serves_properties=[c["property_id"] for c in checks],
                  kind_free_text="runtime monitors (icontract boundary contracts, reference-model and metamorphic oracles, offline checkers over recorded call histories) driven by seeded hostile workloads against the real solvers; 16 fresh worker processes per check")],
    checks=checks, notes=NOTES, not_applicable=na)
json.dump(man, open(os.path.join(HERE, "MANIFEST.json"), "w"), indent=1)
try:
    sys.path.insert(0, os.path.join(HERE, ".deps"))
    import jsonschema
    jsonschema.validate(man, json.load(open("/root/.vp/MANIFEST.schema.json")))
    print("MANIFEST.json valid: %d checks, %d not_applicable" % (len(checks), len(na)))
except ImportError:
    print("written (jsonschema not available to validate)")

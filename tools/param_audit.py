#!/usr/bin/env python3
"""Which constructor parameters of which solver classes does the whole battery of checks never vary?

Reads coverage.constructors_observed of every /verif/evidence/*.json (written by the checks themselves from what
ExactSolver.__init__ was actually given) and compares with the `parameters` dictionary of every public solver class.
A parameter that no check ever passes with two different values is a blind spot of the workload generators: a defect
that needs that parameter to be non-default cannot be observed by any monitor.

  /venv/bin/python tools/param_audit.py            (needs PYTHONPATH with /repo, or run from /verif with EXACTPACK_REPO)"""
import glob
import json
import os
import sys

VERIF = os.path.dirname(os.path.dirname(os.path.abspath(__file__)))
sys.path[:0] = [os.environ.get("EXACTPACK_REPO", "/repo"), VERIF, os.path.join(VERIF, ".deps")]


def main():
    from rtm import catalogue as C
    best = {}       # (class, param) -> (max distinct, check)
    built = {}
    for f in sorted(glob.glob(os.path.join(VERIF, "evidence", "C*.json"))):
        ev = json.load(open(f))
        for c, d in ev.get("coverage", {}).get("constructors_observed", {}).items():
            built[c] = built.get(c, 0) + d.get("built", 0)
            for k, n in d.get("distinct_values", {}).items():
                if n > best.get((c, k), (0, None))[0]:
                    best[(c, k)] = (n, ev["property_id"])
    classes = C.discover()
    never_built, blind = [], []
    for q, cls in sorted(classes.items()):
        n = cls.__name__
        if n not in built:
            never_built.append(q)
            continue
        for k in getattr(cls, "parameters", {}):
            if best.get((n, k), (0, None))[0] <= 1:
                blind.append("%s.%s (distinct values passed: %d)" % (n, k, best.get((n, k), (0, None))[0]))
    print("classes never constructed by any check: %d" % len(never_built))
    for q in never_built:
        print("   ", q)
    print("parameters never given two different values by any check: %d" % len(blind))
    for b in blind:
        print("   ", b)
    return 0


if __name__ == "__main__":
    sys.exit(main())

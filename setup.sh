#!/bin/sh
# Offline setup after a fresh restore: third-party monitor libraries next to the
# repository's interpreter (git-ignored .deps does not survive a restore).
HERE="$(cd "$(dirname "$0")" && pwd)"
cd "$HERE" || exit 1
PY="${EXACTPACK_PYTHON:-/venv/bin/python}"
"$PY" -m pip install -q --no-index --find-links /opt/veriftools/wheels --target "$HERE/.deps" icontract jsonschema >/dev/null 2>&1
PYTHONPATH="$HERE/.deps" "$PY" -c "import icontract, jsonschema; print('deps ok', icontract.__version__)"
